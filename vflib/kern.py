"""Engine K — harness bodies over rdflib's pure str/int kernels, shared by C03, C05, C07.

Every body has the signature body(desc, F, *args) -> None | reason and is executed symbolically by
CrossHair (args are symbolic str/int) and then concretely for replay.
"""
HEX = "0123456789abcdefABCDEF"
ECHAR = {"t": "\t", "b": "\b", "n": "\n", "r": "\r", "f": "\f", '"': '"', "'": "'", "\\": "\\"}


class RefError(Exception):
    pass


def ref_decode(body):
    """decode the body of a Turtle/N-Triples string per the W3C grammar (ECHAR, UCHAR); RefError if illegal"""
    out = ""
    i = 0
    n = len(body)
    while i < n:
        c = body[i]
        if c != "\\":
            out = out + c
            i += 1
            continue
        if i + 1 >= n:
            raise RefError("dangling backslash")
        e = body[i + 1]
        if e in ECHAR:
            out = out + ECHAR[e]
            i += 2
        elif e == "u" or e == "U":
            k = 4 if e == "u" else 8
            hx = body[i + 2:i + 2 + k]
            if len(hx) != k:
                raise RefError("short UCHAR")
            for h in hx:
                if h not in HEX:
                    raise RefError("bad hex digit")
            out = out + chr(int(hx, 16))
            i += 2 + k
        else:
            raise RefError("bad escape")
    return out


def is_string_literal_quote(t):
    """t matches STRING_LITERAL_QUOTE ::= '"' ([^#x22#x5C#xA#xD] | ECHAR | UCHAR)* '"'  (hand-written, no regex)"""
    if len(t) < 2 or t[0] != '"' or t[len(t) - 1] != '"':
        return False
    body = t[1:len(t) - 1]
    i = 0
    n = len(body)
    while i < n:
        c = body[i]
        if c == '"' or c == "\n" or c == "\r":
            return False
        if c != "\\":
            i += 1
            continue
        if i + 1 >= n:
            return False
        e = body[i + 1]
        if e in ECHAR:
            i += 2
        elif e == "u" or e == "U":
            k = 4 if e == "u" else 8
            hx = body[i + 2:i + 2 + k]
            if len(hx) != k:
                return False
            for h in hx:
                if h not in HEX:
                    return False
            i += 2 + k
        else:
            return False
    return True


def _sinkparser():
    from rdflib.plugins.parsers.notation3 import SinkParser
    p = SinkParser.__new__(SinkParser)
    p.lines = 0
    p.startOfLine = 0
    p._thisDoc = ""
    return p


# ---------------------------------------------------------------------------------------------------
def k_nt_writer(desc, F, s):
    """serializers.nt._quote_encode: output is a STRING_LITERAL_QUOTE that a grammar-derived decoder maps back to s,
    and rdflib's own N-Triples reader (ntriples.unquote -> compat.decodeUnicodeEscape) reads back s"""
    from rdflib.plugins.parsers import ntriples
    from rdflib.plugins.serializers import nt
    enc = nt._quote_encode(s)
    if not is_string_literal_quote(enc):
        return "N-Triples writer output is not a STRING_LITERAL_QUOTE"
    try:
        if ref_decode(enc[1:len(enc) - 1]) != s:
            return "a strict reader decodes the N-Triples literal to a different string"
    except RefError:
        return "N-Triples writer output has an illegal escape"
    if desc.get("reader", True):
        if ntriples.unquote(enc[1:len(enc) - 1]) != s:
            return "rdflib's N-Triples reader does not read back what its writer wrote"
    return None


def k_nt_quoteliteral(desc, F, s, lang_or_dt):
    """_quoteLiteral through a recorder literal: the term text ends exactly in @lang / ^^<dt> after the quoted form"""
    from rdflib.plugins.serializers import nt

    class Rec:
        """stands for a Literal: _quoteLiteral only calls .replace (through _quote_encode), .language and .datatype;
        a real str subclass cannot carry symbolic content (str.__new__ realises it)"""
        language = None
        datatype = None

        def __init__(self, text):
            self.text = text

        def replace(self, a, b):
            return self.text.replace(a, b)

    r = Rec(s)
    kind = desc["kind"]
    if kind == "lang":
        r.language = "en-GB"
        suffix = "@en-GB"
    elif kind == "dt":
        r.datatype = "urn:dt"
        suffix = "^^<urn:dt>"
    else:
        suffix = ""
    out = nt._quoteLiteral(r)
    enc = nt._quote_encode(s)
    if out != enc + suffix:
        return "N-Triples literal text is not <quoted lexical form><suffix>"
    return None


def k_ttl_roundtrip(desc, F, s):
    """Literal._quote_encode (both the " and the triple-quote branch) read back by SinkParser.strconst; the reader must
    also stop exactly at the closing delimiter when the literal is followed by more text"""
    from rdflib.term import Literal
    enc = Literal._quote_encode(s)
    tail = desc.get("tail", "")
    text = enc + tail
    if enc[:3] == '"""':
        delim = '"""'
    else:
        delim = '"'
    p = _sinkparser()
    try:
        j, val = p.strconst(text, len(delim), delim)
    except Exception as e:
        return "Turtle reader rejects the writer's literal (%s)" % type(e).__name__
    if val != s:
        return "Turtle reader reads back a different string than the writer was given"
    if j != len(enc):
        return "Turtle reader does not stop at the closing delimiter"
    # a strict reader: long form may contain raw quotes/newlines, short form must be a STRING_LITERAL_QUOTE
    if delim == '"' and not is_string_literal_quote(enc):
        return "short-form Turtle literal is not a STRING_LITERAL_QUOTE"
    return None


def _sparql_string_action(name):
    """the parse action attached to one of the SPARQL string terminals (the function the grammar author wrote, taken out of
    pyparsing's arity wrapper)"""
    from rdflib.plugins.sparql import parser as sp
    el = getattr(sp, name)
    for pa in el.parseAction:
        cells = [c.cell_contents for c in (pa.__closure__ or ())]
        for c in cells:
            if callable(c) and getattr(c, "__module__", None) == sp.__name__:
                return c
    return None


class _RecLit:
    """stands for rdflib.Literal inside the parse action (a real Literal would realise the symbolic text)"""

    def __init__(self, text, *a, **kw):
        self.text = text


class _RdflibShim:
    def __init__(self, real):
        self._real = real
        self.Literal = _RecLit

    def __getattr__(self, name):
        return getattr(self._real, name)


def k_sparql_string(desc, F, s):
    """Literal._quote_encode (n3 text of a literal) read back by the SPARQL grammar's string terminal: the terminal's parse
    action is applied to the whole token, as pyparsing does after the terminal's regex matched it"""
    from rdflib.plugins.sparql import parser as sp
    from rdflib.term import Literal
    if desc.get("long"):
        s = "\n" + s
    enc = Literal._quote_encode(s)
    name = "STRING_LITERAL_LONG2" if enc[:3] == '"""' else "STRING_LITERAL2"
    fn = _sparql_string_action(name)
    if fn is None:
        from ..driver import HarnessLimit
        raise HarnessLimit("no parse action found on sparql.parser.%s" % name)
    real = sp.__dict__["rdflib"]
    sp.__dict__["rdflib"] = _RdflibShim(real)
    try:
        out = fn([enc])
    finally:
        sp.__dict__["rdflib"] = real
    if not isinstance(out, _RecLit):
        from ..driver import HarnessLimit
        raise HarnessLimit("the parse action does not build its result through rdflib.Literal")
    if out.text != s:
        return "SPARQL string terminal reads back a different string than the writer was given"
    return None


class _LabelMap:
    """label -> node map with linear search, for SinkParser._anonymousNodes (a real dict would hash, i.e. realise, a symbolic label)"""

    def __init__(self):
        self.items_ = []

    def get(self, k, default=None):
        # the latest entry for a key wins (re-assignment)
        r = default
        for a, b in self.items_:
            if a == k:
                r = b
        return r

    def __getitem__(self, k):
        r = self.get(k)
        if r is None:
            raise KeyError(k)
        return r

    def __setitem__(self, k, v):
        self.items_.append((k, v))

    def __contains__(self, k):
        return self.get(k) is not None

    def items(self):
        # later entries for the same key win, as in a dict
        out = []
        for a, b in self.items_:
            out = [(x, y) for x, y in out if not (x == a)] + [(a, b)]
        return out


def k_doc_labels(desc, F, l1, l2):
    """a Turtle-family document in which two blank node labels are symbolic strings, through the real TriG / Turtle statement parser
    into a real Dataset: the two occurrences denote one node exactly when the labels are equal - also across graph blocks"""
    from rdflib import Dataset, URIRef
    from rdflib.plugins.parsers.notation3 import RDFSink
    from rdflib.plugins.parsers.trig import TrigSinkParser
    if isinstance(l1, int) or type(l1).__name__ == "SymbolicInt":
        # labels given as code points: strings of concrete length (all offsets in the document stay concrete)
        l1, l2 = chr(l1), chr(l2)
    for part in (l1, l2):
        for c in part:
            if not (("a" <= c <= "z") or ("0" <= c <= "9")):
                return None
    ds = Dataset()
    p = TrigSinkParser(RDFSink(ds), baseURI="http://base.invalid/", turtle=True)
    p._anonymousNodes = _LabelMap()
    a, b = "_:b" + l1, "_:b" + l2
    shape = desc["shape"]
    if shape == "two-blocks":
        doc = "<urn:g1> { %s <urn:p> <urn:o> . }\n<urn:g2> { %s <urn:p> <urn:o> . }\n" % (a, b)
    elif shape == "default-then-block":
        doc = "%s <urn:p> <urn:o> .\n<urn:g2> { %s <urn:p> <urn:o> . }\n" % (a, b)
    elif shape == "graph-keyword":
        doc = "GRAPH <urn:g1> { %s <urn:p> <urn:o> }\nGRAPH <urn:g2> { <urn:s> <urn:p> %s }\n" % (a, b)
    elif shape == "one-block":
        doc = "<urn:g1> { %s <urn:p> <urn:o> . <urn:s> <urn:q> %s . }\n" % (a, b)
    else:
        raise AssertionError(shape)
    p.startDoc()
    p.feed(doc)
    p.endDoc()
    from rdflib import BNode
    nodes = []
    for s_, p_, o_, g_ in ds.quads((None, None, None, None)):
        for t in (s_, o_):
            if isinstance(t, BNode):
                nodes.append(t)
    if len(nodes) != 2:
        return "the document's two blank node occurrences give %d blank node positions" % len(nodes)
    if (nodes[0] == nodes[1]) != (l1 == l2):
        return "two occurrences of blank node labels in one TriG document: same label <-> same node does not hold (%s)" % shape
    return None


def k_doc_prefix(desc, F, c1, c2):
    """a Turtle document that declares a prefix, uses it, declares a prefix again (same or other name, by the solver's choice; @prefix or
    SPARQL-style PREFIX by shape) for another namespace and uses that: each prefixed name expands with the declaration in force where
    it stands"""
    from rdflib import Graph, URIRef
    from rdflib.plugins.parsers.notation3 import RDFSink, SinkParser
    p1, p2 = "p" + chr(c1), "p" + chr(c2)
    g = Graph()
    p = SinkParser(RDFSink(g), baseURI="http://base.invalid/", turtle=True)
    m = _LabelMap()
    for k, v in p._bindings.items():
        m[k] = v
    p._bindings = m
    second = {"at-prefix": "@prefix %s: <urn:b/> .\n", "sparql-prefix": "PREFIX %s: <urn:b/>\n", "sparql-prefix-lower": "prefix %s: <urn:b/>\n"}[desc["second"]]
    doc = ("@prefix %s: <urn:a/> .\n%s:x <urn:p> <urn:o1> .\n" % (p1, p1)) + (second % p2) + ("%s:x <urn:p> <urn:o2> .\n" % p2)
    if desc.get("third"):
        # ... and the first name once more: it means the second namespace exactly when the two prefix names are the same
        doc += "%s:x <urn:p> <urn:o3> .\n" % p1
    p.startDoc()
    p.feed(doc)
    p.endDoc()
    s1 = list(g.subjects(URIRef("urn:p"), URIRef("urn:o1")))
    s2 = list(g.subjects(URIRef("urn:p"), URIRef("urn:o2")))
    if s1 != [URIRef("urn:a/x")]:
        return "the first prefixed name does not expand with the first declaration"
    if s2 != [URIRef("urn:b/x")]:
        return "a prefixed name after a second prefix declaration does not expand with the declaration in force (%s)" % desc["second"]
    if desc.get("third"):
        s3 = list(g.subjects(URIRef("urn:p"), URIRef("urn:o3")))
        want = URIRef("urn:b/x") if c1 == c2 else URIRef("urn:a/x")
        if s3 != [want]:
            return "a prefixed name used again after a re-declaration does not expand with the declaration in force (%s)" % desc["second"]
    return None


def k_ttl_roundtrip_long(desc, F, s):
    """same as k_ttl_roundtrip for strings containing a newline (the triple-quoted branch of Literal._quote_encode)"""
    return k_ttl_roundtrip(desc, F, "\n" + s)


def _match_xsd(dt, s):
    """hand-written matchers of the XSD lexical spaces (no regex on symbolic strings)"""
    if dt == "boolean":
        return s == "true" or s == "false" or s == "1" or s == "0"
    i = 0
    n = len(s)
    if i < n and (s[i] == "+" or s[i] == "-"):
        i += 1
    d1 = 0
    while i < n and s[i] in "0123456789":
        i += 1
        d1 += 1
    if dt == "integer":
        return d1 > 0 and i == n
    # decimal: digits+ ('.' digits*)? | '.' digits+
    if i == n:
        return d1 > 0
    if s[i] != ".":
        return False
    i += 1
    d2 = 0
    while i < n and s[i] in "0123456789":
        i += 1
        d2 += 1
    return i == n and (d1 > 0 or d2 > 0)


def _turtle_numeric_type(t):
    """which datatype the Turtle grammar assigns to the bare token t (INTEGER / DECIMAL / DOUBLE / boolean), else None"""
    if t == "true" or t == "false":
        return "boolean"
    i = 0
    n = len(t)
    if i < n and (t[i] == "+" or t[i] == "-"):
        i += 1
    d1 = 0
    while i < n and t[i] in "0123456789":
        i += 1
        d1 += 1
    if i == n:
        return "integer" if d1 > 0 else None
    if t[i] == ".":
        i += 1
        d2 = 0
        while i < n and t[i] in "0123456789":
            i += 1
            d2 += 1
        if i == n:
            return "decimal" if d2 > 0 else None
    return None  # exponents are not produced by the branches under test


def k_plain_num(desc, F, s):
    """Literal._literal_n3(use_plain=True) on a receiver stub whose lexical form is the symbolic s, constrained to the XSD
    lexical space of the datatype: the shorthand token must be re-typed by the Turtle grammar as the same datatype"""
    from rdflib import term
    dt = desc["dt"]
    if desc.get("any_text"):
        # rdflib uses the shorthand whenever "a value could be determined" (e.g. int("12\n") is 12): whatever the lexical form
        # is, a bare token must be a Turtle token of that datatype. Decimal forms with an exponent are excluded (the
        # repository's test_issue1043 asserts that they are written bare).
        if dt == "boolean" or "e" in s or "E" in s or len(s) == 0:
            return None
    elif not _match_xsd(dt, s):
        return None

    class Stub:
        datatype = {"integer": term._XSD_INTEGER, "decimal": term._XSD_DECIMAL, "boolean": term._XSD_BOOLEAN}[dt]
        value = 1  # "a value could be determined"
        language = None

        def __format__(self, spec):
            return s

        def __str__(self):
            return s

        def __float__(self):
            return 1.0  # finite: the INF/NaN guard of _literal_n3 is not the subject

        def _quote_encode(self):
            return term.Literal._quote_encode(s)

        def _literal_n3(self, use_plain=False, qname_callback=None):
            return term.Literal._literal_n3(self, use_plain, qname_callback)

    out = term.Literal._literal_n3(Stub(), True)
    if len(out) > 0 and out[0] == '"':
        return None  # written in quoted form with its datatype: nothing is re-typed
    got = _turtle_numeric_type(out)
    if got != dt:
        return "Turtle shorthand for a valid xsd:%s lexical form is read back as %s" % (dt, got or "something else")
    return None


def k_ttl_reader(desc, F, a, b):
    """differential: SinkParser.strconst vs the grammar-derived decoder on  <delim> a <escape> b <delim>  where the
    escape is enumerated by shape and a, b are symbolic strings of legal plain characters"""
    delim = desc["delim"]
    d1 = delim[0]
    for part in (a, b):
        for c in part:
            if c == "\\" or c == d1:
                return None
            if len(delim) == 1 and (c == "\n" or c == "\r"):
                return None
    body = a + desc["escape"] + b
    text = delim + body + delim + desc.get("tail", "")
    try:
        want = ref_decode(body)
    except RefError:
        return None
    p = _sinkparser()
    try:
        j, val = p.strconst(text, len(delim), delim)
    except Exception as e:
        return "Turtle reader rejects a legal string (%s)" % type(e).__name__
    if val != want:
        return "Turtle reader decodes a legal string differently from the grammar"
    if j != len(delim) * 2 + len(body):
        return "Turtle reader does not stop at the closing delimiter"
    return None


def k_nt_reader(desc, F, a, b):
    """differential: ntriples.unquote vs the grammar-derived decoder on bodies  a <escape> b"""
    from rdflib.plugins.parsers import ntriples
    for part in (a, b):
        for c in part:
            if c == "\\" or c == '"' or c == "\n" or c == "\r":
                return None
    body = a + desc["escape"] + b
    try:
        want = ref_decode(body)
    except RefError:
        return None
    try:
        got = ntriples.unquote(body)
    except Exception as e:
        return "N-Triples reader rejects a legal string body (%s)" % type(e).__name__
    if got != want:
        return "N-Triples reader decodes a legal string body differently from the grammar"
    return None


def k_xml_text(desc, F, s):
    """xml.sax.saxutils.escape / quoteattr as used by XMLWriter.text / attribute, read back by a reference XML 1.0 unescaper"""
    from xml.sax.saxutils import escape, quoteattr
    e = escape(s)
    if "<" in e or _bare_amp(e):
        return "escaped character data still contains markup"
    if _xml_unescape(e) != s:
        return "XML character data does not unescape to the original text"
    q = quoteattr(s)
    if len(q) < 2 or q[0] != q[len(q) - 1] or q[0] not in "\"'":
        return "attribute value is not quoted"
    inner = q[1:len(q) - 1]
    if q[0] in inner or "<" in inner or _bare_amp(inner):
        return "attribute value contains its own delimiter or markup"
    if _xml_unescape(inner) != s:
        return "XML attribute value does not unescape to the original text"
    return None


ENT = {"&amp;": "&", "&lt;": "<", "&gt;": ">", "&quot;": '"', "&apos;": "'", "&#10;": "\n", "&#13;": "\r", "&#9;": "\t"}


def _bare_amp(e):
    i = 0
    while i < len(e):
        if e[i] == "&":
            ok = False
            for k in ENT:
                if e[i:i + len(k)] == k:
                    ok = True
                    i += len(k)
                    break
            if not ok:
                return True
        else:
            i += 1
    return False


def _xml_unescape(e):
    out = ""
    i = 0
    while i < len(e):
        if e[i] == "&":
            for k, v in ENT.items():
                if e[i:i + len(k)] == k:
                    out = out + v
                    i += len(k)
                    break
            else:
                out = out + "&"
                i += 1
        else:
            out = out + e[i]
            i += 1
    return out


def k_rdfxml_lang(desc, F, l0, l1, l2):
    """RDF/XML SAX handler driven directly with the event sequence of
         <rdf:RDF [xml:lang=l0]> <rdf:Description rdf:about="urn:s" [xml:lang=l1]> <p [xml:lang=l2]>x</p> ...
    (which attributes are present is part of the shape, their values are symbolic strings): the literal's language is the
    innermost xml:lang in scope, and xml:lang="" switches an inherited language off"""
    from xml.sax.xmlreader import AttributesNSImpl
    from rdflib import Graph
    from rdflib.plugins.parsers.rdfxml import RDFXMLHandler
    for t in (l0, l1, l2):
        for ch in t:
            if ch not in "ab":
                return None
    RDFNS = "http://www.w3.org/1999/02/22-rdf-syntax-ns#"
    XML = "http://www.w3.org/XML/1998/namespace"
    present = desc["present"]

    class Loc:
        def getPublicId(self):
            return None

        def getSystemId(self):
            return "urn:doc"

        def getLineNumber(self):
            return 1

        def getColumnNumber(self):
            return 1

    def attrs(extra, lang, has):
        d = dict(extra)
        if has:
            d[(XML, "lang")] = lang
        return AttributesNSImpl(d, {k: k[1] for k in d})

    g = Graph()
    h = RDFXMLHandler(g)
    h.setDocumentLocator(Loc())
    h.startDocument()
    try:
        h.startElementNS((RDFNS, "RDF"), None, attrs({}, l0, present[0]))
        h.startElementNS((RDFNS, "Description"), None, attrs({(RDFNS, "about"): "urn:s"}, l1, present[1]))
        h.startElementNS(("urn:v#", "p"), None, attrs({}, l2, present[2]))
        h.characters("x")
        h.endElementNS(("urn:v#", "p"), None)
        h.endElementNS((RDFNS, "Description"), None)
        h.endElementNS((RDFNS, "RDF"), None)
    except Exception as e:
        return "the RDF/XML handler rejects a legal document (%s)" % type(e).__name__
    want = None
    for has, val in zip(present, (l0, l1, l2)):
        if has:
            want = val
    if want == "":
        want = None
    lits = [o for _, _, o in g]
    if len(lits) != 1:
        return "the RDF/XML handler did not produce exactly the one statement of the document"
    got = lits[0].language
    if want is None:
        if got is not None:
            return "a literal outside any language scope (or after xml:lang=\"\") carries a language tag"
    elif got is None or got.lower() != want.lower():
        return "the literal does not carry the innermost xml:lang in scope"
    return None


def k_iri_join(desc, F, s1, s2, f, name):
    """notation3.join (relative IRI resolution used for @base / BASE): base http://h/<s1>/<s2>/<f> (segments by shape), reference
    k times '../' followed by a name (and optionally './' or a fragment); expected per RFC 3986 section 5.2: every '../' removes
    one directory level, never above the root"""
    from rdflib.plugins.parsers.notation3 import join
    for t in (s1, s2, name):
        if len(t) == 0:
            return None
    for t in (s1, s2, f, name):
        for ch in t:
            if ch not in "ab":
                return None
    dirs = [s1, s2][: desc["depth"]]
    here = "http://h/" + "".join(d + "/" for d in dirs) + f
    there = ("./" if desc.get("dot") else "") + "../" * desc["ups"] + name + ("#x" if desc.get("frag") else "")
    keep = dirs[: max(0, len(dirs) - desc["ups"])]
    want = "http://h/" + "".join(d + "/" for d in keep) + name + ("#x" if desc.get("frag") else "")
    try:
        got = join(here, there)
    except Exception as e:
        return "relative IRI resolution raises %s" % type(e).__name__
    if got != want:
        return "relative IRI with %d '../' against a base %d levels deep resolves to the wrong IRI" % (desc["ups"], desc["depth"])
    return None


BODIES = {"k-doc-prefix": k_doc_prefix, "k-doc-labels": k_doc_labels, "k-sparql-string": k_sparql_string, "k-iri-join": k_iri_join, "k-rdfxml-lang": k_rdfxml_lang, "k-ttl-roundtrip-long": k_ttl_roundtrip_long, "k-plain-num": k_plain_num, "k-nt-writer": k_nt_writer, "k-nt-quoteliteral": k_nt_quoteliteral, "k-ttl-roundtrip": k_ttl_roundtrip,
          "k-ttl-reader": k_ttl_reader, "k-nt-reader": k_nt_reader, "k-xml-text": k_xml_text}

ESCAPES = ["", "\\n", "\\t", "\\\"", "\\'", "\\\\", "\\r", "\\b", "\\f", "\\u0041", "\\u00e9", "\\U0001F600", "\\u005C", "\\u0022",
           # an escape directly followed by hexadecimal digits (where a greedy or case-blind escape pattern reads too far)
           "\\u0041cafe", "\\U0001F600ff", "\\u00e9BEEF0"]
