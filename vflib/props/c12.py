"""C12 — parsing only adds, and blank nodes of separate documents never merge (engine K; partial: Turtle and TriG).

Most parsers read blank node labels with regex / SAX / JSON scanners over the whole document, which realise a symbolic document.
The Turtle-family statement parser (notation3.SinkParser, trig.TrigSinkParser) is hand-written Python over the document string; with
labels whose last character is a symbolic *code point* every offset in the document stays concrete, and the real parsers run on it.
Decided here, through the real TurtleParser.parse / TrigParser.parse (a record stands for the InputSource):
 * two parse calls into one graph with labels l1, l2: the two blank nodes are different nodes whatever the labels, neither is an
   existing node whose identifier spells the label, and the existing triples are all still there (parsing only adds);
 * inside one document the same label denotes one node and different labels different nodes, also across the graph blocks of a
   TriG document (the k-doc-labels family shared with C05).
N-Triples, N-Quads, RDF/XML, TriX, JSON-LD, HexTuples are NOT claimed (text scanners; for N-Quads, JSON-LD and HexTuples a concrete
experiment shows that equal labels of separate calls DO merge - DESIGN section 6).
"""
from rdflib import BNode, Dataset, Graph, URIRef

from .. import kern

PROPERTY = "C12"
FUNCTIONS = [
    "rdflib.plugins.parsers.notation3.TurtleParser.parse", "rdflib.plugins.parsers.trig.TrigParser.parse",
    "rdflib.plugins.parsers.notation3.SinkParser (statement level: directiveOrStatement, statement, subject, object, node, qname, anonymousNode, "
    "blankNode, makeStatement, startDoc/endDoc/feed/loadStream)", "rdflib.plugins.parsers.trig.TrigSinkParser.graph / labelOrSubject / directiveOrStatement",
    "rdflib.plugins.parsers.notation3.RDFSink (newBlankNode, makeStatement, normalise)", "rdflib.graph.Graph.add / absolutize / bind",
]
STUBS = ["the InputSource is a record: getPublicId/getSystemId -> a fixed IRI, getCharacterStream -> an object whose read() returns the document",
         "SinkParser / TrigSinkParser are subclassed so that a new parser's label table (_anonymousNodes) is a linear-search map instead of a dict "
         "(a dict would hash, i.e. realise, the symbolic label); everything else is the real class"]
ASSUMPTIONS = ["labels are 'b' followed by one symbolic code point in a-z (two symbolic characters in the thorough tier would need symbolic offsets)"]

P = URIRef("urn:p")


class _Stream:
    def __init__(self, text):
        self.text = text

    def read(self, *a):
        return self.text


class _Src:
    def __init__(self, text):
        self.text = text

    def getPublicId(self):
        return "http://doc.invalid/d"

    def getSystemId(self):
        return "http://doc.invalid/d"

    def getCharacterStream(self):
        return _Stream(self.text)

    def getByteStream(self):
        return None


_TABLES = []   # (the parser's own dict, the linear-search map standing for it) - kept alive for the duration of a path


def _swap_label_table(parser):
    """a new parser's label table (a dict) is represented by a linear-search map; one dict object is always represented by one and the
    same map, so a table shared between parsers stays shared"""
    t = parser.__dict__.get("_anonymousNodes")
    if type(t) is not dict:
        return
    for d, m in _TABLES:
        if d is t:
            parser._anonymousNodes = m
            return
    if len(t) == 0:
        m = kern._LabelMap()
        _TABLES.append((t, m))
        parser._anonymousNodes = m


def _patched(fn):
    import rdflib.plugins.parsers.notation3 as n3
    import rdflib.plugins.parsers.trig as tg

    base_sp, base_tsp = n3.SinkParser, tg.TrigSinkParser

    class SP(base_sp):
        def __init__(self, *a, **kw):
            base_sp.__init__(self, *a, **kw)
            _swap_label_table(self)

    class TSP(base_tsp):
        def __init__(self, *a, **kw):
            base_tsp.__init__(self, *a, **kw)
            _swap_label_table(self)

    saved = (base_sp, base_tsp)
    del _TABLES[:]
    n3.SinkParser, tg.TrigSinkParser = SP, TSP
    try:
        return fn(n3, tg)
    finally:
        n3.SinkParser, tg.TrigSinkParser = saved


def k_parse_calls(desc, F, c1, c2):
    """two parse() calls into one graph that already holds a statement about a blank node whose identifier spells a label"""
    l1, l2 = "b" + chr(c1), "b" + chr(c2)
    fmt = desc["format"]
    old = BNode("bq")     # an existing node that "looks like" the label _:bq
    if fmt == "turtle":
        g = Graph()
        target = g
    else:
        g = Dataset()
        target = g.default_graph
    target.add((old, P, URIRef("urn:o0")))
    doc1 = "_:%s <urn:p> <urn:o1> .\n" % l1
    doc2 = "_:%s <urn:p> <urn:o2> .\n" % l2
    if fmt == "trig-block":
        doc2 = "<urn:g1> { _:%s <urn:p> <urn:o2> . }\n" % l2

    def run(n3, tg):
        for doc in (doc1, doc2):
            if fmt == "turtle":
                n3.TurtleParser().parse(_Src(doc), g)
            else:
                tg.TrigParser().parse(_Src(doc), target)
        return None

    _patched(run)
    if fmt == "turtle":
        triples = list(g)
    else:
        triples = [(s, p, o) for s, p, o, c in g.quads((None, None, None, None))]
    if len(triples) != 3:
        return "after two parse calls the graph holds %d statements instead of 3" % len(triples)
    if not any(s == old and o == URIRef("urn:o0") for s, p, o in triples):
        return "a statement that was in the graph before parsing is gone"
    n1 = [s for s, p, o in triples if o == URIRef("urn:o1")]
    n2 = [s for s, p, o in triples if o == URIRef("urn:o2")]
    if len(n1) != 1 or len(n2) != 1 or not isinstance(n1[0], BNode) or not isinstance(n2[0], BNode):
        return "the parsed statements are not there"
    if n1[0] == n2[0]:
        return "blank nodes of two parse calls are merged"
    if n1[0] == old or n2[0] == old:
        return "a blank node of a parsed document is merged with an existing node whose identifier spells its label"
    return None


BODIES = dict(kern.BODIES)
BODIES["k-parse-calls"] = k_parse_calls


def obligations(tier, seed):
    obs = []
    for fmt in ("turtle", "trig", "trig-block"):
        obs.append(dict(oid="K/parse-calls/%s" % fmt, family="k-parse-calls", desc={"format": fmt}, sig=[("c1", "i"), ("c2", "i")],
                        pre=["97 <= c1 <= 122", "97 <= c2 <= 122"], budget=600, twin_budget=300))
    for shape in ("two-blocks", "default-then-block", "graph-keyword", "one-block"):
        obs.append(dict(oid="K/within-document/%s" % shape, family="k-doc-labels", desc={"shape": shape}, sig=[("l1", "i"), ("l2", "i")],
                        pre=["97 <= l1 <= 122", "97 <= l2 <= 122"], budget=600, twin_budget=300))
    return obs


def bounds(tier):
    return {"k-parse-calls": "Turtle into a Graph, TriG into a Dataset (default graph and a graph block): two parse() calls with labels 'b' + one symbolic "
                             "code point a-z each, into a graph that already holds a statement about BNode('bq')",
            "k-doc-labels": "4 TriG document shapes with two labels ending in a symbolic code point: same label <=> same node",
            "outside": "N-Triples, N-Quads, RDF/XML, TriX, JSON-LD, HexTuples; labels longer than two characters; more than two documents; "
                       "isomorphism of two fresh parses of one document (needs the canonicaliser, C14)"}


def finding_key(ob, cex, reason):
    return "%s|%s" % (ob["family"], reason)
