"""C15 — query answers do not depend on how the query is written, prepared or stored (engine S).

Differential, no oracle: two evaluations inside one symbolic path on the same symbolic data must
return the same multiset of solutions (modulo the variable renaming of the rewrite).
"""
import copy
import itertools
import random

from rdflib import Dataset, Graph, URIRef, Variable
from rdflib.graph import ReadOnlyGraphAggregate
from rdflib.plugins.stores.auditable import AuditableStore
from rdflib.plugins.stores.memory import Memory, SimpleMemory

from .. import sparqlref as R
from ..model import tin
from . import c04, c08, c11
from .c04 import V, C, P, Q, tp

PROPERTY = "C15"
FUNCTIONS = [
    "rdflib.plugins.sparql.algebra.reorderTriples (concrete)", "rdflib.plugins.sparql.algebra.analyse (concrete)",
    "rdflib.plugins.sparql.evaluate.evalPart", "rdflib.plugins.sparql.evaluate.evalBGP", "rdflib.plugins.sparql.evaluate.evalJoin",
    "rdflib.plugins.sparql.evaluate.evalLazyJoin", "rdflib.plugins.sparql.evaluate.evalUnion", "rdflib.plugins.sparql.evaluate.evalQuery",
    "rdflib.plugins.sparql.sparql.QueryContext.__init__", "rdflib.plugins.sparql.sparql.FrozenBindings.__getitem__",
    "rdflib.plugins.sparql.sparql.FrozenBindings.forget", "rdflib.plugins.sparql.processor.prepareQuery (concrete)",
    "rdflib.plugins.stores.memory.Memory.triples", "rdflib.plugins.stores.memory.SimpleMemory.triples",
    "rdflib.plugins.stores.auditable.AuditableStore.triples", "rdflib.graph.ReadOnlyGraphAggregate.triples",
]
STUBS = c04.STUBS
ASSUMPTIONS = ["templates that fall in one of the recorded C04 scope-deviation classes are excluded from the operand-swap rewrites "
               "(swapping changes which side has bindings pushed in; those deviations are reported under C04)"]


def rows_of(res, vs):
    out = []
    for b in res["bindings"]:
        row = []
        for v in vs:
            try:
                row.append(c08.norm(b[Variable(v)]))
            except KeyError:
                row.append(None)
        out.append(row)
    return out


def same_rows(a, b):
    if len(a) != len(b):
        return False

    def req(r1, r2):
        return all(c08.veq(x, y) for x, y in zip(r1, r2))

    for r in a:
        if sum(1 for x in a if req(x, r)) != sum(1 for x in b if req(x, r)):
            return False
    return True


def _mkgraph(store_kind, desc, F, args, kind_of=None):
    """-> (queryable graph, next arg index)"""
    triples = []
    i = 0
    for j, pn in enumerate(desc["data"]):
        s = F.iri(args[i])
        kinds = desc.get("kinds")
        o = F.lit(args[i + 1]) if (kinds and (kinds == "L" or kinds[j] == "L")) else F.iri(args[i + 1])
        i += 2
        triples.append((s, R.IRIS[pn], o))
    if store_kind == "Memory":
        g = Graph(store=Memory())
    elif store_kind == "SimpleMemory":
        g = Graph(store=SimpleMemory())
    elif store_kind == "Auditable":
        g = Graph(store=AuditableStore(Memory()))
    elif store_kind == "Aggregate":
        parts = [Graph(store=Memory()), Graph(store=Memory())]
        for j, t in enumerate(triples):
            parts[desc["split"][j]].add(t)
        if desc.get("assume_disjoint_parts"):
            from ..model import teq
            for j, t in enumerate(triples):
                for k2, u in enumerate(triples):
                    if desc["split"][j] != desc["split"][k2] and teq(t, u):
                        return None, i  # residual check: the recorded finding's inputs are excluded
        return ReadOnlyGraphAggregate(parts), i
    else:
        raise AssertionError(store_kind)
    for t in triples:
        g.add(t)
    return g, i


def body_rewrite(desc, F, *args):
    from rdflib.plugins.sparql.evaluate import evalQuery
    g, i = _mkgraph("Memory", desc, F, args)
    consts = [F.iri(args[i + j]) for j in range(desc["nconst"])]
    q1 = c04.prepare(desc["text1"], consts)
    q2 = c04.prepare(desc["text2"], consts)
    r1 = rows_of(evalQuery(g, q1), desc["vars1"])
    r2 = rows_of(evalQuery(g, q2), desc["vars2"])
    if not same_rows(r1, r2):
        return "answers differ between the two spellings (%s: %s)" % (desc["rewrite"], desc["name"])
    return None


def body_initbindings(desc, F, *args):
    from rdflib.plugins.sparql.evaluate import evalQuery
    g, i = _mkgraph("Memory", desc, F, args)
    t = F.iri(args[i])
    if desc.get("assume_term_in_graph"):
        # residual check for the recorded finding: the given term occurs in the data
        occurs = False
        for s_, _, o_ in g:
            if t == s_ or t == o_:
                occurs = True
        if not occurs:
            return None
    q1 = c04.prepare(desc["text1"], [])
    q2 = c04.prepare(desc["text2"], [t])       # VALUES ?x { <placeholder 0> }
    r1 = rows_of(evalQuery(g, q1, initBindings={desc["var"]: t}), desc["vars"])
    r2 = rows_of(evalQuery(g, q2), desc["vars"])
    if not same_rows(r1, r2):
        return "initBindings and a VALUES row give different answers (%s)" % desc["name"]
    return None


def body_prepared(desc, F, *args):
    """one prepared query object: G1, G2, G1 again — each compared with a freshly prepared copy"""
    from rdflib.plugins.sparql.evaluate import evalQuery
    n = len(desc["data"])
    g1, i = _mkgraph("Memory", desc, F, args)
    g2, _ = _mkgraph("Memory", desc, F, args[i:])
    i2 = 2 * i
    consts = [F.iri(args[i2 + j]) for j in range(desc["nconst"])]
    q = c04.prepare(desc["text"], consts)
    for idx, g in enumerate((g1, g2, g1)):
        fresh = c04.prepare(desc["text"], consts)
        a = rows_of(evalQuery(g, q), desc["vars"])
        b = rows_of(evalQuery(g, fresh), desc["vars"])
        if not same_rows(a, b):
            return "a re-used prepared query answers differently from a fresh one at evaluation %d (%s)" % (idx + 1, desc["name"])
    return None


def body_store(desc, F, *args):
    from rdflib.plugins.sparql.evaluate import evalQuery
    base, i = _mkgraph("Memory", desc, F, args)
    other, _ = _mkgraph(desc["store"], desc, F, args)
    if other is None:
        return None
    consts = [F.iri(args[i + j]) for j in range(desc["nconst"])]
    q = c04.prepare(desc["text"], consts)
    a = rows_of(evalQuery(base, q), desc["vars"])
    b = rows_of(evalQuery(other, c04.prepare(desc["text"], consts)), desc["vars"])
    if not same_rows(a, b):
        return "answers differ between Memory and %s (%s)" % (desc["store"], desc["name"])
    return None


def body_prepared_init(desc, F, *args):
    """one prepared query object: evaluated with initBindings, then without — the second must equal a fresh query's answer"""
    from rdflib.plugins.sparql.evaluate import evalQuery
    g, i = _mkgraph("Memory", desc, F, args)
    t = (F.lit if desc.get("kinds") == "L" else F.iri)(args[i])
    q = c04.prepare(desc["text"], [])
    rows_of(evalQuery(g, q, initBindings={desc["var"]: t}), desc["vars"])
    a = rows_of(evalQuery(g, q), desc["vars"])
    b = rows_of(evalQuery(g, c04.prepare(desc["text"], [])), desc["vars"])
    if not same_rows(a, b):
        return "a prepared query first run with initBindings answers differently afterwards (%s)" % desc["name"]
    # and the other way round: a run without must not change a later run with initBindings
    c = rows_of(evalQuery(g, q, initBindings={desc["var"]: t}), desc["vars"])
    d = rows_of(evalQuery(g, c04.prepare(desc["text"], []), initBindings={desc["var"]: t}), desc["vars"])
    if not same_rows(c, d):
        return "a re-used prepared query with initBindings answers differently from a fresh one (%s)" % desc["name"]
    return None


def body_processor(desc, F, *args):
    """the public route Graph.query(text, initNs=...) (SPARQLProcessor.query: parse + translate + evaluate per call): the same
    text under other initNs namespaces, and the full-IRI spelling, evaluated in sequence on one graph; nothing may leak from
    one call to the next"""
    g, i = _mkgraph("Memory", desc, F, args)

    def run(text, ns):
        res = g.query(text, initNs=ns)
        out = []
        for b in res.bindings:
            row = []
            for v in desc["vars"]:
                try:
                    row.append(c08.norm(b[Variable(v)]))
                except KeyError:
                    row.append(None)
            out.append(row)
        return out

    for step, (text, ns, ref_text) in enumerate(desc["steps"]):
        a = run(text, ns)
        b = run(ref_text, {})
        if not same_rows(a, b):
            return "Graph.query call %d (prefixes from initNs) answers differently from the full-IRI spelling (%s)" % (step + 1, desc["name"])
    return None


BODIES = {"processor": body_processor, "prepared-init": body_prepared_init, "rewrite": body_rewrite, "initbindings": body_initbindings, "prepared": body_prepared, "store": body_store}


# ----------------------------------------------------------------------------- rewrites
def rename_ast(x, m):
    if isinstance(x, list):
        if len(x) == 2 and x[0] == "v" and isinstance(x[1], str):
            return ["v", m.get(x[1], x[1])]
        if x and x[0] == "bound" and len(x) == 2:
            return ["bound", m.get(x[1], x[1])]
        if x and x[0] == "bind":
            return ["bind", rename_ast(x[1], m), m.get(x[2], x[2])]
        if x and x[0] == "values":
            return ["values", [m.get(v, v) for v in x[1]], x[2]]
        if x and x[0] == "sub":
            return ["sub", x[1] if x[1] == "*" else [m.get(v, v) for v in x[1]], rename_ast(x[2], m), x[3]]
        return [rename_ast(y, m) for y in x]
    return x


def with_prefix(text):
    # two prefixes for one namespace: a legal prologue that a one-prefix-per-namespace table cannot hold
    return "PREFIX x: <urn:> PREFIX y: <urn:> " + text.replace("<urn:p>", "x:p").replace("<urn:q>", "y:q")


BGPS = {
    "chain2": [tp(V("s"), P, V("o")), tp(V("o"), Q, V("z"))],
    "chain3": [tp(V("s"), P, V("o")), tp(V("o"), Q, V("z")), tp(V("z"), P, V("w"))],
    "star3": [tp(V("s"), P, V("o")), tp(V("s"), Q, V("z")), tp(V("s"), P, V("w"))],
    "cross": [tp(V("s"), P, V("o")), tp(V("x"), Q, V("y"))],
    "const3": [tp(V("s"), P, C(0)), tp(V("s"), Q, V("z")), tp(V("z"), P, V("w"))],
    "samevar": [tp(V("s"), P, V("s")), tp(V("s"), Q, V("z"))],
    "varpred": [tp(V("s"), V("pp"), V("o")), tp(V("o"), Q, V("z"))],
}


def obligations(tier, seed):
    rnd = random.Random(seed)
    obs = []

    def data_for(group, n):
        return c04.data_shapes(group, n)[0]

    def add_rw(name, rewrite, g1, g2, nc, vars1, vars2, ds, text2=None, budget=300, kinds=None):
        t1 = R.render("select", g1)
        t2 = text2 or R.render("select", g2)
        obs.append(dict(oid="rw/%s/%s/%s%s" % (rewrite, name, "".join(ds), "-L" if kinds else ""), family="rewrite",
                        desc={"name": name, "rewrite": rewrite, "text1": t1, "text2": t2, "vars1": vars1, "vars2": vars2,
                              "nconst": nc, "data": list(ds), "kinds": kinds},
                        sig=[("x%d" % i, "i") for i in range(2 * len(ds) + nc)], budget=budget))

    # 1. every permutation of a BGP's triple patterns
    for name, bgp in BGPS.items():
        nc = 1 if name == "const3" else 0
        vs = R.vars_in_scope(bgp)
        perms = list(itertools.permutations(bgp))[1:]
        if tier == "quick" and len(perms) > 2:
            perms = rnd.sample(perms, 2)
        for k, perm in enumerate(perms):
            for n in ((2, 3) if tier == "quick" else (2, 3, 4)):
                shapes = {2: [["p", "q"]], 3: [["p", "q", "p"], ["p", "p", "q"]], 4: [["p", "q", "p", "q"]]}[n]
                if tier == "quick":
                    shapes = shapes[:1]
                for ds in shapes:
                    add_rw("%s#%d" % (name, k), "bgp-permutation", bgp, list(perm), nc, vs, vs, ds, budget=300 if n < 4 else 1500)
    # 2. operand swaps, 3. renaming, 4. prefixes over the C04 catalogue
    S = dict(c04.singles())
    PP = c04.pairs()
    names = sorted(S) + (sorted(PP) if tier == "thorough" else rnd.sample(sorted(PP), 60))
    ren = {"s": "a", "o": "b", "z": "s", "x": "o", "y": "x", "w": "y", "b": "c", "b1": "c1", "b2": "c2", "pp": "qq"}
    for name in names:
        group, nc = S[name] if name in S else PP[name]
        vs = R.vars_in_scope(group)
        ds = data_for(group, 2)
        # renaming + prefix spelling in one rewrite
        g2 = rename_ast(group, ren)
        vs2 = [ren.get(v, v) for v in vs]
        add_rw(name, "rename+prefix", group, g2, nc, vs, vs2, ds, text2=with_prefix(R.render("select", g2)))
        if c04.scope_issues(group):
            continue
        # swap operands of a top-level union / of a join of two groups
        # (the swapped spelling must not fall into a recorded scope class either: swapping moves a
        #  group into / out of the position where rdflib pushes bindings into it)
        if len(group) == 1 and group[0][0] == "union":
            sw = [["union", group[0][2], group[0][1]]]
            if not c04.scope_issues(sw):
                add_rw(name, "swap-union", group, sw, nc, vs, vs, ds)
                add_rw(name, "swap-union", group, sw, nc, vs, vs, ds, kinds="L")
        if len(group) == 2 and group[0][0] == "group" and group[1][0] == "group":
            sw = [group[1], group[0]]
            if not c04.scope_issues(sw):
                add_rw(name, "swap-join", group, sw, nc, vs, vs, ds)
                add_rw(name, "swap-join", group, sw, nc, vs, vs, ds, kinds="L")
                add_rw(name, "swap-join", group, sw, nc, vs, vs, ds, kinds="L")
        if len(group) == 2 and group[0][0] == "tp" and group[1][0] in ("union", "group", "sub", "values"):
            sw = [group[1], group[0]]
            if not c04.scope_issues(sw):
                add_rw(name, "swap-join", group, sw, nc, vs, vs, ds)
                add_rw(name, "swap-join", group, sw, nc, vs, vs, ds, kinds="L")
    # modifiers (C08) under renaming+prefix
    M = c08.modsets()
    for mname in (sorted(M) if tier == "thorough" else ["order-o-s", "distinct-o", "group-count", "group-min", "group-order-alias"]):
        mods = M[mname]
        if mods.get("limit") or mods.get("offset"):
            continue
        d1 = {"group": c08.BASES["bgp"], "mods": mods}
        t1 = c08.render(d1)
        t2 = with_prefix(t1).replace("?s", "?a9").replace("?o", "?b9")
        outv = [x if isinstance(x, str) else x[3] for x in mods["select"]]
        outv2 = [{"s": "a9", "o": "b9"}.get(v, v) for v in outv]
        obs.append(dict(oid="rw/rename+prefix/mod-%s" % mname, family="rewrite",
                        desc={"name": "mod-" + mname, "rewrite": "rename+prefix", "text1": t1, "text2": t2, "vars1": outv, "vars2": outv2,
                              "nconst": 0, "data": ["p", "p", "p"], "kinds": ["L", "L", "L"]},
                        sig=[("x%d" % i, "i") for i in range(6)], budget=400))
    # paths through SPARQL text (C11 catalogue): spelled with and without PREFIX, ends bound by VALUES vs written in place
    for ast in c11.DEPTH1:
        if ast[0] == "neg" and any(m.startswith("^") for m in ast[1]):
            continue
        ptxt = _path_text(ast)
        t1 = "SELECT ?s ?o WHERE { ?s %s ?o }" % ptxt
        t2 = with_prefix(t1)
        for ds in ([["p", "q"]] if tier == "quick" else [["p", "q"], ["p", "p"], ["p", "q", "p"]]):
            obs.append(dict(oid="rw/path-prefix/%s/%s" % (c11.show(ast), "".join(ds)), family="rewrite",
                            desc={"name": c11.show(ast), "rewrite": "path-prefix", "text1": t1, "text2": t2, "vars1": ["s", "o"],
                                  "vars2": ["s", "o"], "nconst": 0, "data": ds},
                            sig=[("x%d" % i, "i") for i in range(2 * len(ds))], budget=300))
        t3 = "SELECT ?s ?o WHERE { VALUES ?s { <%s> } ?s %s ?o }" % (R.PLACEHOLDER % 0, ptxt)
        t4 = "SELECT ?s ?o WHERE { <%s> %s ?o BIND(<%s> AS ?s) }" % (R.PLACEHOLDER % 0, ptxt, R.PLACEHOLDER % 0)
        obs.append(dict(oid="rw/path-bound-start/%s" % c11.show(ast), family="rewrite",
                        desc={"name": c11.show(ast), "rewrite": "path-bound-start", "text1": t3, "text2": t4, "vars1": ["s", "o"],
                              "vars2": ["s", "o"], "nconst": 1, "data": ["p", "q"]},
                        sig=[("x%d" % i, "i") for i in range(5)], budget=300))
    # paths whose two ends are already bound when the pattern is evaluated vs bound afterwards (a path pattern yields one
    # solution per route for / and |): VALUES before vs after the pattern, and a join with a plain pattern in both orders.
    # Zero-length forms (*, ?) are left to the initbindings family, which carries the recorded finding for them.
    for ast in c11.DEPTH1:
        if ast[0] == "neg" and any(m.startswith("^") for m in ast[1]):
            continue
        if ast[0] == "mul" and ast[2] in "*?":
            continue
        ptxt = _path_text(ast)
        c0, c1 = R.PLACEHOLDER % 0, R.PLACEHOLDER % 1
        t5 = "SELECT ?s ?o WHERE { VALUES (?s ?o) { (<%s> <%s>) } ?s %s ?o }" % (c0, c1, ptxt)
        t6 = "SELECT ?s ?o WHERE { ?s %s ?o VALUES (?s ?o) { (<%s> <%s>) } }" % (ptxt, c0, c1)
        obs.append(dict(oid="rw/path-bound-both/%s" % c11.show(ast), family="rewrite",
                        desc={"name": c11.show(ast), "rewrite": "path-bound-both", "text1": t5, "text2": t6, "vars1": ["s", "o"],
                              "vars2": ["s", "o"], "nconst": 2, "data": ["p", "q"]},
                        sig=[("x%d" % i, "i") for i in range(6)], budget=300))
        t7 = "SELECT ?s ?o WHERE { { ?s <urn:p> ?o } { ?s %s ?o } }" % ptxt
        t8 = "SELECT ?s ?o WHERE { { ?s %s ?o } { ?s <urn:p> ?o } }" % ptxt
        obs.append(dict(oid="rw/path-join-swap/%s" % c11.show(ast), family="rewrite",
                        desc={"name": c11.show(ast), "rewrite": "path-join-swap", "text1": t7, "text2": t8, "vars1": ["s", "o"],
                              "vars2": ["s", "o"], "nconst": 0, "data": ["p", "q"]},
                        sig=[("x%d" % i, "i") for i in range(4)], budget=300))
    # 4b. the public route Graph.query(text, initNs=...): one text under two different namespaces for the same prefix name, in
    #     sequence on one graph (translation must not be carried over from one call to the next)
    PT = {"bgp": ("SELECT ?s ?o WHERE { ?s x:p ?o }", ["s", "o"]),
          "optional": ("SELECT ?s ?o ?z WHERE { ?s x:p ?o OPTIONAL { ?o x:q ?z } }", ["s", "o", "z"]),
          "path": ("SELECT ?s ?o WHERE { ?s x:p/x:q ?o }", ["s", "o"])}
    for name, (text, vs) in PT.items():
        def full(ns):
            return text.replace("x:p", "<%sp>" % ns).replace("x:q", "<%sq>" % ns)
        for order in (["urn:", "urn:other:", "urn:"], ["urn:other:", "urn:"]):
            steps = [[text, {"x": ns}, full(ns)] for ns in order]
            obs.append(dict(oid="processor/%s/%s" % (name, "-".join("A" if n == "urn:" else "B" for n in order)), family="processor",
                            desc={"name": name, "steps": steps, "vars": vs, "data": ["p", "q"], "nconst": 0},
                            sig=[("x%d" % i, "i") for i in range(4)], budget=300))
    # 5. initBindings vs VALUES for a variable bound by the outermost BGP
    for name, bgp in list(BGPS.items()) + [("optional", c04.A + [["opt", c04.RIGHTS["o-shared"]]]), ("filter", c04.A + [["filter", ["!=", V("s"), V("o")]]]),
                                           ("union", [["union", c04.A, [tp(V("s"), Q, V("z"))]]])]:
        if name == "const3":
            continue
        vs = R.vars_in_scope(bgp)
        for var in (["s", "o"] if name not in ("union",) else ["s"]):
            if var not in vs:
                continue
            t1 = R.render("select", bgp)
            t2 = R.render("select", bgp + [["values", [var], [[C(0)]]]])
            ds = data_for(bgp, 2) if len([e for e in bgp if e[0] == "tp"]) < 3 else ["p", "q", "p"]
            for kinds in (None, "L"):
                obs.append(dict(oid="init/%s/%s%s" % (name, var, "-L" if kinds else ""), family="initbindings",
                                desc={"name": name, "var": var, "text1": t1, "text2": t2, "vars": vs, "data": list(ds), "kinds": kinds},
                                sig=[("x%d" % i, "i") for i in range(2 * len(ds) + 1)], budget=300))
    # 5b. the same for variables that are the ends of a property path (the evaluator picks its direction from what is bound)
    for ast in (["mul", ["iri", "p"], "+"], ["mul", ["iri", "p"], "*"], ["seq", ["iri", "p"], ["iri", "q"]], ["mul", ["alt", ["iri", "p"], ["inv", ["iri", "q"]]], "+"]):
        ptxt = _path_text(ast)
        for var in ("x", "y"):
            t1 = "SELECT ?x ?y WHERE { ?x %s ?y }" % ptxt
            t2 = "SELECT ?x ?y WHERE { ?x %s ?y VALUES ?%s { <%s> } }" % (ptxt, var, R.PLACEHOLDER % 0)
            for ds in (["p", "p"], ["p", "q"]):
                for kinds in (None, "L"):
                    obs.append(dict(oid="init/path-%s/%s/%s%s" % (c11.show(ast), var, "".join(ds), "-L" if kinds else ""), family="initbindings",
                                    desc={"name": "path " + c11.show(ast), "var": var, "text1": t1, "text2": t2, "vars": ["x", "y"], "data": ds,
                                          "kinds": kinds},
                                    sig=[("x%d" % i, "i") for i in range(2 * len(ds) + 1)], budget=300))
        # join operand swap around a path pattern
        t1 = "SELECT * WHERE { { ?y <%s> ?m } { ?x %s ?y } }" % (R.IRIS["q"], ptxt)
        t2 = "SELECT * WHERE { { ?x %s ?y } { ?y <%s> ?m } }" % (ptxt, R.IRIS["q"])
        for ds in (["p", "q"], ["p", "p", "q"]):
            obs.append(dict(oid="rw/swap-join/path-%s/%s" % (c11.show(ast), "".join(ds)), family="rewrite",
                            desc={"name": "path " + c11.show(ast), "rewrite": "swap-join", "text1": t1, "text2": t2, "vars1": ["x", "y", "m"],
                                  "vars2": ["x", "y", "m"], "nconst": 0, "data": ds},
                            sig=[("x%d" % i, "i") for i in range(2 * len(ds))], budget=300 if len(ds) == 2 else 900))
    # 6. prepared query re-used on G1, G2, G1
    prep = ["bgp2", "optional/o-shared", "optional-filter-both", "union/o-shared", "minus/o-shared", "exists/o-shared", "notexists/s-shared",
            "filter-eq-const", "bind-if", "values-undef", "subselect/o-shared", "subselect-distinct", "bind-after-opt", "opt-opt-seq"]
    if tier == "thorough":
        prep = sorted(S)
    for name in prep:
        group, nc = S[name]
        vs = R.vars_in_scope(group)
        ds = data_for(group, 2)
        obs.append(dict(oid="prepared/%s" % name, family="prepared",
                        desc={"name": name, "text": R.render("select", group), "vars": vs, "nconst": nc, "data": list(ds)},
                        sig=[("x%d" % i, "i") for i in range(4 * len(ds) + nc)], budget=600))
    X = V("x")
    pinit = {
        "nested-filter": [tp(V("s"), P, X), ["group", [tp(V("s"), Q, V("y")), ["filter", ["=", X, V("y")]]]]],
        "nested-bind": [tp(V("s"), P, X), ["group", [tp(V("s"), Q, V("y")), ["bind", ["coalesce", X, V("y")], "z"]]]],
        "optional-filter": [tp(V("s"), P, X), ["opt", [tp(V("s"), Q, V("y")), ["filter", ["!=", X, V("y")]]]]],
        "filter": [tp(V("s"), P, X), ["filter", ["!=", X, V("s")]]],
        "exists": [tp(V("s"), P, X), ["filter", ["exists", [tp(X, Q, V("y"))]]]],
    }
    for name, group in pinit.items():
        for kinds in (None, "L"):
            obs.append(dict(oid="prepared-init/%s%s" % (name, "-L" if kinds else ""), family="prepared-init",
                            desc={"name": name, "text": R.render("select", group), "vars": R.vars_in_scope(group), "var": "x",
                                  "data": ["p", "q"], "kinds": kinds},
                            sig=[("x%d" % i, "i") for i in range(5)], budget=400))
    # prepared queries containing property paths (path objects live in the algebra tree and are shared between evaluations)
    for ast in (["mul", ["iri", "p"], "+"], ["mul", ["iri", "p"], "*"], ["mul", ["iri", "p"], "?"], ["seq", ["iri", "p"], ["mul", ["iri", "p"], "*"]]):
        for form, text, vs, nc in (("start-const", "SELECT ?o WHERE { <%s> %s ?o }" % (R.PLACEHOLDER % 0, _path_text(ast)), ["o"], 1),
                                   ("end-const", "SELECT ?s WHERE { ?s %s <%s> }" % (_path_text(ast), R.PLACEHOLDER % 0), ["s"], 1),
                                   ("free", "SELECT ?s ?o WHERE { ?s %s ?o }" % _path_text(ast), ["s", "o"], 0),
                                   ("start-joined", "SELECT ?s ?o WHERE { ?s <%s> ?m . ?m %s ?o }" % (R.IRIS["q"], _path_text(ast)), ["s", "o"], 0)):
            ds = ["p", "p"] if form != "start-joined" else ["q", "p"]
            obs.append(dict(oid="prepared/path-%s/%s" % (c11.show(ast), form), family="prepared",
                            desc={"name": "path %s %s" % (c11.show(ast), form), "text": text, "vars": vs, "nconst": nc, "data": ds},
                            sig=[("x%d" % i, "i") for i in range(4 * len(ds) + nc)], budget=600))
    for mname in ["group-count", "group-min", "order-o-s", "distinct-o"]:
        d1 = {"group": c08.BASES["bgp"], "mods": M[mname]}
        outv = [x if isinstance(x, str) else x[3] for x in M[mname]["select"]]
        obs.append(dict(oid="prepared/mod-%s" % mname, family="prepared",
                        desc={"name": "mod-" + mname, "text": c08.render(d1), "vars": outv, "nconst": 0, "data": ["p", "p"], "kinds": ["L", "L"]},
                        sig=[("x%d" % i, "i") for i in range(8)], budget=600))
    # 7. stores
    for name in (["bgp2", "optional/o-shared", "union/o-shared", "minus/o-shared", "filter-eq-const", "bgp-varpred", "bgp-const-s", "exists/o-shared"]
                 if tier == "quick" else sorted(S)):
        group, nc = S[name]
        vs = R.vars_in_scope(group)
        for store in ("SimpleMemory", "Auditable", "Aggregate"):
            for ds in (c04.data_shapes(group, 2)[:1] if tier == "quick" else c04.data_shapes(group, 2)[:2]):
                splits = [[0, 1]] if store == "Aggregate" else [None]
                if store == "Aggregate" and tier == "thorough":
                    splits = [[0, 1], [0, 0]]
                for sp in splits:
                    obs.append(dict(oid="store/%s/%s/%s%s" % (store, name, "".join(ds), "" if sp is None else "/" + "".join(map(str, sp))),
                                    family="store",
                                    desc={"name": name, "store": store, "text": R.render("select", group), "vars": vs, "nconst": nc,
                                          "data": list(ds), "split": sp},
                                    sig=[("x%d" % i, "i") for i in range(2 * len(ds) + nc)], budget=300))
    return obs


def _path_text(ast):
    k = ast[0]
    if k == "iri":
        return "<%s>" % R.IRIS[ast[1]]
    if k == "inv":
        return "^(%s)" % _path_text(ast[1])
    if k == "seq":
        return "(%s/%s)" % (_path_text(ast[1]), _path_text(ast[2]))
    if k == "alt":
        return "(%s|%s)" % (_path_text(ast[1]), _path_text(ast[2]))
    if k == "mul":
        return "(%s)%s" % (_path_text(ast[1]), ast[2])
    if k == "neg":
        return "!(%s)" % "|".join(("^<%s>" % R.IRIS[m[1:]]) if m.startswith("^") else "<%s>" % R.IRIS[m] for m in ast[1])
    raise AssertionError(ast)


def bounds(tier):
    return {"rewrite": "permutations of %d BGPs (2-3 triple patterns, n=2-3%s symbolic triples); variable renaming + PREFIX spelling for every C04 "
                       "single-operator template and %s depth-2 nestings; swap of union / join operands where no recorded scope deviation "
                       "applies; C08 modifier sets and C11 depth<=1 paths through SPARQL text" % (len(BGPS), "" if tier == "quick" else "-4",
                                                                                              "60 seeded" if tier == "quick" else "all"),
            "initbindings": "initBindings={?x: t} vs VALUES ?x {t} with t symbolic, x bound by the outermost BGP, over BGP / OPTIONAL / FILTER / UNION templates",
            "prepared-init": "one prepared Query evaluated with initBindings for ?x and then without (and again with), compared with fresh "
                             "queries; templates whose nested group / OPTIONAL / FILTER / EXISTS mention ?x",
            "prepared": "one prepared Query evaluated on symbolic G1, G2, G1 (n=2 each), each time compared with a freshly prepared query",
            "store": "Memory vs SimpleMemory, AuditableStore(Memory), ReadOnlyGraphAggregate of two graphs (split by shape)",
            "outside": "query cache of Graph.query (text keyed, concrete), SPARQLStore, n>4"}


def _zero_length_path(d):
    return str(d.get("name", "")).startswith("path ") and ("*" in d["name"] or "?" in d["name"])


def finding_key(ob, cex, reason):
    d = ob["desc"]
    if ob["family"] == "initbindings" and _zero_length_path(d):
        if d.get("assume_term_in_graph"):
            return "initbindings|residual|%s" % reason
        return "initbindings|zero-length-path-on-term-outside-graph"
    if ob["family"] == "store" and d.get("store") == "Aggregate":
        if d.get("assume_disjoint_parts"):
            return "store|residual|%s" % reason
        return "store|aggregate-shared-triple"
    return "%s|%s" % (ob["family"], reason)


def residual(ob):
    d = ob["desc"]
    if ob["family"] == "initbindings" and _zero_length_path(d) and not d.get("assume_term_in_graph"):
        o2 = dict(ob)
        o2["desc"] = dict(d, assume_term_in_graph=True)
        return o2
    if ob["family"] == "store" and d.get("store") == "Aggregate" and not d.get("assume_disjoint_parts"):
        o2 = dict(ob)
        o2["desc"] = dict(d, assume_disjoint_parts=True)
        return o2
    return None


def untraced():
    # concrete query text through rdflib's own parser and translator: run them outside the tracer (the `processor` family calls
    # Graph.query, which parses per call; the other families parse inside c04.prepare, already untraced)
    from rdflib.plugins.sparql.algebra import translateQuery
    from rdflib.plugins.sparql.parser import parseQuery
    from ..driver import default_untraced
    return default_untraced() + [parseQuery, translateQuery]
