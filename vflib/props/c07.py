"""C07 — term identity laws (engines K + R; partial: the 'n3() text read back is the same term' clause).

rdflib terms are str subclasses built by str.__new__ in C, so a term with symbolic *content* cannot
exist: equivalence / hash / ordering / pickling laws over contents are NOT covered.  Decided here:
the text forms of literals through the Turtle/SPARQL string reader, language tags, blank-node labels
and the IRI validity gate against the readers' token patterns.
"""
import time

from .. import kern
from . import c05

PROPERTY = "C07"
FUNCTIONS = [
    "rdflib.term.Literal._quote_encode", "rdflib.plugins.parsers.notation3.SinkParser.strconst",
    "rdflib.term._lang_tag_regex", "rdflib.plugins.parsers.notation3.langcode", "rdflib.plugins.sparql.parser.LANGTAG (live pyparsing Regex)",
    "rdflib.term._is_valid_uri / _invalid_uri_chars", "rdflib.term._unique_id", "rdflib.plugins.parsers.ntriples.r_nodeid",
    "rdflib.term._ORDERING", "rdflib.plugins.sparql.evalutils._val", "rdflib.term.Literal.__eq__ / __ne__",
]
STUBS = c05.STUBS[:1] + ["Literal._quote_encode is called unbound on a symbolic str receiver"]
ASSUMPTIONS = ["NOT covered: equality / hash laws over lexical *contents*, hash/eq coherence, literal value ordering, pickling/copying, "
               "from_n3 (ends in C codecs): term contents cannot be symbolic. Covered of the equality laws: Literal.__eq__ over symbolic "
               "language tags (length <= 1 and <= 2; thorough both <= 2; over aAb) and symbolic datatype identities with concrete lexical forms"]
BODIES = dict(kern.BODIES)


def k_literal_eq(desc, F, la, lb, da, db):
    """Literal.__eq__ on literals whose language tag is a symbolic string and whose datatype is a symbolic identity (or absent):
    equality is reflexive, symmetric and transitive, distinguishes by datatype and by the language tag case-insensitively.
    The lexical forms are concrete (same / different by shape): str content cannot be symbolic."""
    from rdflib.term import Literal
    for t in (la, lb):
        for ch in t:
            if ch not in "aAb":
                return None
    lc = lb  # the third literal of the transitivity check shares y's tag spelling but x's lexical form

    def mk(lex, lang, dt):
        inst = str.__new__(Literal, lex)
        inst._value = None
        inst._language = lang if lang else None
        inst._datatype = F.iri(dt) if (dt != 0 and not lang) else None
        inst._ill_typed = None
        return inst

    x = mk("v", la, da)
    y = mk("v" if desc["same_lex"] else "w", lb, db)
    z = mk("v", lc, da)
    if not Literal.__eq__(x, x):
        return "a literal is not equal to itself"
    exy, eyx = Literal.__eq__(x, y), Literal.__eq__(y, x)
    if bool(exy) != bool(eyx):
        return "literal equality is not symmetric"
    want = desc["same_lex"] and (la.lower() == lb.lower()) and ((da == db) or bool(la) or (da == 0 and db == 0))
    if bool(la) != bool(lb):
        want = False
    if (not la) and (not lb) and not ((da == db) or (da == 0 and db == 0)):
        want = False
    if bool(exy) != bool(want):
        return "literal equality disagrees with (lexical form, datatype, lower-cased language tag)"
    if bool(Literal.__ne__(x, y)) == bool(exy):
        return "!= is not the negation of =="
    # transitivity through z (same lexical form and datatype as x, its own language tag)
    if exy and Literal.__eq__(y, z) and not Literal.__eq__(x, z):
        return "literal equality is not transitive"
    return None


BODIES["k-literal-eq"] = k_literal_eq


def r_obligations():
    from .. import rx
    import z3
    obs = {}

    def live():
        import rdflib.plugins.parsers.notation3 as n3
        import rdflib.plugins.parsers.ntriples as nt
        import rdflib.term as term
        return nt, n3, term

    # every language tag Literal() accepts is written in a form every reader accepts, and vice versa
    obs["lang/_lang_tag_regex<=LANGTAG"] = (lambda: (rx.accepted_language(live()[2], "_lang_tag_regex"), rx.to_z3(c05.LANGTAG_BODY)), "lang-accepted")
    obs["lang/LANGTAG<=_lang_tag_regex"] = (lambda: (rx.to_z3(c05.LANGTAG_BODY), rx.accepted_language(live()[2], "_lang_tag_regex")), "lang")
    obs["lang/_lang_tag_regex<=notation3.langcode"] = (lambda: (rx.accepted_language(live()[2], "_lang_tag_regex"), rx.to_z3(live()[1].langcode)), "ttl-lang")

    def sparql_lang():
        from rdflib.plugins.sparql import parser as sp
        import pyparsing

        def find_regex(e):
            if isinstance(e, pyparsing.Regex):
                return e
            for sub in (getattr(e, "exprs", None) or ([e.expr] if getattr(e, "expr", None) is not None else [])):
                r = find_regex(sub)
                if r is not None:
                    return r
            return None

        rg = find_regex(sp.LANGTAG)
        if rg is None:
            raise rx.Unsupported("sparql.parser.LANGTAG no longer contains a pyparsing Regex")
        # the grammar element is Suppress("@") + Regex(<tag>): compare the tag part
        return rx.accepted_language(live()[2], "_lang_tag_regex"), rx.to_z3(rg.pattern)

    obs["lang/_lang_tag_regex<=sparql.LANGTAG"] = (sparql_lang, "lang-accepted")

    def bnode_lbl():
        nt, n3, term = live()
        pre = term._unique_id()
        a = rx.to_z3("_:" + "".join("\\" + c if not c.isalnum() else c for c in pre) + "[0-9a-f]{32}")
        return a, rx.to_z3(nt.r_nodeid)

    obs["bnode/BNode().n3()<=r_nodeid"] = (bnode_lbl, "nt-bnode")

    def iri_gate():
        nt, n3, term = live()
        bad = term._invalid_uri_chars
        okc = z3.Intersect(rx.to_z3(r"[^\x00-\x20]"), z3.Complement(z3.Union(*[rx.lit(c) for c in bad])))
        a = z3.Concat(rx.lit("<"), rx.to_z3("[A-Za-z][A-Za-z0-9+.\\-]*:"), z3.Star(okc), rx.lit(">"))
        return a, rx.to_z3(nt.r_uriref)

    obs["iri/URIRef.n3()-of-valid-absolute<=r_uriref"] = (iri_gate, "nt-iri")
    return obs


def run_custom(ob):
    name = ob["desc"]["name"]
    if name == "ordering-table":
        return _ordering()
    saved = c05.r_obligations
    try:
        c05.r_obligations = r_obligations
        return c05.run_custom(ob)
    finally:
        c05.r_obligations = saved


def replay_custom(ob, cex):
    name = ob["desc"]["name"]
    if name == "ordering-table":
        return _ordering().get("replay", {}).get("reason") if _ordering()["verdict"] == "refuted" else None
    kind = r_obligations()[name][1]
    if kind == "none":
        return "witness %r" % cex.get("witness")
    return c05._replay_witness(kind, cex["witness"])


def _ordering():
    """shape-symbolic supplement: the finite cross-kind tables are consistent: bnode < variable < IRI < literal"""
    from rdflib.plugins.sparql.evalutils import _val
    from rdflib.term import _ORDERING, BNode, Literal, URIRef, Variable
    t0 = time.time()
    terms = [BNode("b"), Variable("v"), URIRef("urn:u"), Literal("l")]
    bad = None
    for i, a in enumerate(terms):
        for j, b in enumerate(terms):
            if (i < j) != (_ORDERING[type(a)] < _ORDERING[type(b)]):
                bad = "_ORDERING does not rank %s before %s" % (type(terms[min(i, j)]).__name__, type(terms[max(i, j)]).__name__)
            if i != j and (i < j) != (a < b):
                bad = "%s < %s is %s" % (type(a).__name__, type(b).__name__, a < b)
    ranks = [_val(Variable("v"))[0], _val(BNode("b"))[0], _val(URIRef("urn:u"))[0], _val(Literal("l"))[0]]
    if ranks != sorted(ranks) or len(set(ranks)) != 4:
        bad = "SPARQL ordering ranks of unbound/bnode/IRI/literal are %r" % (ranks,)
    out = {"paths": 16, "queries": 0, "solver_s": 0.0, "cpu_s": round(time.time() - t0, 3), "cex": None, "detail": "shape-symbolic supplement (finite table)"}
    if bad:
        out.update(verdict="refuted", cex={"table": "ordering"}, replay={"falsy": "str", "reason": bad})
    else:
        out.update(verdict="confirmed", twin={"verdict": "refuted", "replayed_ok": True, "cex": None})
    return out


def obligations(tier, seed):
    obs = []
    for name in r_obligations():
        obs.append(dict(oid="R/" + name, family="regex-inclusion", runner="custom", desc={"name": name}, sig=[], budget=120))
    obs.append(dict(oid="T/ordering-table", family="shape-symbolic", runner="custom", desc={"name": "ordering-table"}, sig=[], budget=30))
    n = 3 if tier == "quick" else 4
    big = 400 if tier == "quick" else 3600
    for tail in (["", "@en-GB", "^^<urn:dt>"] if tier == "quick" else ["", "@en-GB", "^^<urn:dt>", " ."]):
        m = n if tail == "" else n - 1
        obs.append(dict(oid="K/literal-n3-text/len<=%d/tail=%r" % (m, tail), family="k-ttl-roundtrip", desc={"tail": tail},
                        sig=[("s", "s")], pre=["len(s) <= %d" % m], budget=big))
    for same in (True, False):
        obs.append(dict(oid="K/literal-eq/%s" % ("same-lexical" if same else "different-lexical"), family="k-literal-eq", desc={"same_lex": same},
                        sig=[("la", "s"), ("lb", "s"), ("da", "i"), ("db", "i")],
                        pre=["len(la) <= %d" % (1 if tier == "quick" else 2), "len(lb) <= %d" % (2 if tier == "quick" else 2)],
                        budget=600 if tier == "quick" else 3000))
    obs.append(dict(oid="K/literal-n3-text-long/len<=%d" % (n - 1), family="k-ttl-roundtrip-long", desc={"tail": "@en"}, sig=[("s", "s")],
                    pre=["len(s) <= %d" % (n - 1)], budget=big))
    # the same text through the SPARQL grammar's string terminals (their parse actions applied to the whole token)
    obs.append(dict(oid="K/literal-n3-text-sparql/len<=%d" % n, family="k-sparql-string", desc={}, sig=[("s", "s")],
                    pre=["len(s) <= %d" % n], budget=big))
    obs.append(dict(oid="K/literal-n3-text-sparql-long/len<=%d" % (n - 1), family="k-sparql-string", desc={"long": True}, sig=[("s", "s")],
                    pre=["len(s) <= %d" % (n - 1)], budget=big))
    return obs


def bounds(tier):
    n = 3 if tier == "quick" else 4
    return {"regex-inclusion": "%d inclusions, strings of every length: language tags accepted by Literal() = LANGTAG and within every reader's "
                               "pattern (N3, SPARQL), generated blank-node labels and the text of every absolute IRI that passes the n3() "
                               "validity gate within the N-Triples token patterns" % len(r_obligations()),
            "k-ttl-roundtrip": "Literal._quote_encode -> SinkParser.strconst for every lexical form of length <= %d, bare and followed by "
                               "@lang / ^^<iri>; long-quoting branch for newline + length <= %d" % (n, n - 1),
            "k-sparql-string": "Literal._quote_encode -> the parse action of sparql.parser.STRING_LITERAL2 / STRING_LITERAL_LONG2 (delimiter removal and "
                               "escape decoding; the terminal's own regex is not part of it) for every lexical form of length <= %d" % n,
            "k-literal-eq": "Literal.__eq__/__ne__: reflexive, symmetric, transitive, = (lexical, datatype, lower-cased language) for symbolic "
                            "language tags of length <= 2 and symbolic datatype identities; lexical forms concrete",
            "shape-symbolic": "the finite kind-ordering tables (_ORDERING, _val) — enumeration, not a solver claim",
            "outside": "equality/hash/ordering/pickling laws over term contents, from_n3, Variable/QuotedGraph text forms"}


def finding_key(ob, cex, reason):
    if ob["family"] in ("regex-inclusion", "shape-symbolic"):
        return "R|%s" % ob["desc"]["name"]
    return "%s|%s" % (ob["family"], reason)
