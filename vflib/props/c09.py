"""C09 — Literal <-> Python value mapping (engines K + R; partial).

Constructing a Literal realises its lexical form (C-level str.__new__), floats are modelled as reals,
Decimal / datetime are C code: the value-space claims for float, double, decimal, date, time, dateTime are
out of reach and NOT claimed.  Decided: the integer-derived datatypes' range checks over all integers,
the boolean lexical mapping, the calendar kernel, whitespace normalisation idempotence, and two
lexical-space inclusions.
"""
import time

from . import c05

PROPERTY = "C09"
FUNCTIONS = [
    "rdflib.term._check_well_formed_types (live table) -> _well_formed_int / short / byte / unsignedint / unsignedlong / unsignedshort / "
    "unsignedbyte / non_negative_integer / positive_integer / non_positive_integer / negative_integer",
    "rdflib.term._parseBoolean", "rdflib.term._well_formed_boolean", "rdflib.xsd_datetime.max_days_in_month",
    "rdflib.term._strip_and_collapse_whitespace", "rdflib.term._normalise_XSD_STRING", "rdflib.xsd_datetime.ISO8601_PERIOD_REGEX (live)",
    "rdflib.term._lang_tag_regex (live)", "rdflib.term.Literal.eq / neq (numeric fast path and same-datatype value comparison)",
]
STUBS = ["k-eq-numeric: Literal instances are built with str.__new__ and their _value/_datatype slots set to a symbolic integer and a "
         "numeric XSD datatype (the constructor would realise the lexical form)"]
ASSUMPTIONS = ["only the direction the property states is demanded of the range checks: a value inside the XSD value space must not be "
               "flagged ill-typed (rdflib accepting too much, e.g. no upper bound for xsd:unsignedLong, is not a violation of the text)"]

XSD = "http://www.w3.org/2001/XMLSchema#"
RANGES = {
    "int": (-2147483648, 2147483647), "short": (-32768, 32767), "byte": (-128, 127), "long": (-9223372036854775808, 9223372036854775807),
    "unsignedInt": (0, 4294967295), "unsignedShort": (0, 65535), "unsignedByte": (0, 255), "unsignedLong": (0, 18446744073709551615),
    "nonNegativeInteger": (0, None), "positiveInteger": (1, None), "nonPositiveInteger": (None, 0), "negativeInteger": (None, -1),
    "integer": (None, None),
}


def k_int_range(desc, F, v):
    from rdflib import term
    from rdflib.term import URIRef
    lo, hi = RANGES[desc["dt"]]
    inside = (lo is None or v >= lo) and (hi is None or v <= hi)
    if not inside:
        return None
    check = term._check_well_formed_types.get(URIRef(XSD + desc["dt"]), term._well_formed_by_value)
    if not check("1", v):
        return "a value inside the value space of xsd:%s is flagged ill-typed" % desc["dt"]
    return None


def k_boolean(desc, F, s):
    from rdflib import term
    valid = {"true": True, "false": False, "1": True, "0": False}
    if s not in valid:
        return None
    import warnings
    with warnings.catch_warnings():
        warnings.simplefilter("ignore")
        if term._parseBoolean(s) is not valid[s]:
            return "a valid xsd:boolean form maps to the wrong value"
    if not term._well_formed_boolean(s, valid[s]):
        return "a valid xsd:boolean form is flagged ill-typed"
    return None


def k_days_in_month(desc, F, y, m):
    from rdflib.xsd_datetime import max_days_in_month
    got = max_days_in_month(y, m)
    if m in (1, 3, 5, 7, 8, 10, 12):
        want = 31
    elif m != 2:
        want = 30
    else:
        leap = (y % 4 == 0 and y % 100 != 0) or y % 400 == 0
        want = 29 if leap else 28
    if got != want:
        return "max_days_in_month disagrees with the Gregorian calendar"
    return None


def k_ws_idempotent(desc, F, s):
    from rdflib import term
    f = {"collapse": term._strip_and_collapse_whitespace, "replace": term._normalise_XSD_STRING}[desc["fn"]]
    once = f(s)
    if f(once) != once:
        return "normalising an already normalised string changes it"
    if desc["fn"] == "replace":
        for c in once:
            if c == "\t" or c == "\n" or c == "\r":
                return "normalizedString still contains tab/newline/carriage return"
        if len(once) != len(s):
            return "normalizedString normalisation changed the length"
    else:
        if len(once) > 0 and (once[0] == " " or once[len(once) - 1] == " "):
            return "token still has leading/trailing space"
        prev = ""
        for c in once:
            if c == " " and prev == " ":
                return "token still has consecutive spaces"
            prev = c
    return None


class _DurErr(Exception):
    pass


def _ref_parse_duration(t):
    """XSD 1.1 durationLexicalRep read character by character -> (negative, months, microseconds); raises _DurErr for
    a text outside the lexical space. Written from the grammar, shares nothing with rdflib."""
    n = len(t)
    i = 0
    neg = False
    if i < n and t[i] == "-":
        neg = True
        i += 1
    if i >= n or t[i] != "P":
        raise _DurErr("no P")
    i += 1
    months = 0
    usecs = 0
    in_time = False
    seen = 0  # designators must come in the order Y M D (T) H M S, each at most once
    order_date = "YMD"
    order_time = "HMS"
    rank = 0
    while i < n:
        if t[i] == "T":
            if in_time:
                raise _DurErr("two T")
            in_time = True
            rank = 0
            i += 1
            if i >= n:
                raise _DurErr("bare T")
            continue
        v = 0
        nd = 0
        while i < n and "0" <= t[i] <= "9":
            v = v * 10 + (ord(t[i]) - 48)
            nd += 1
            i += 1
        if nd == 0 or i >= n:
            raise _DurErr("number expected")
        frac = 0
        if t[i] == ".":
            i += 1
            scale = 100000
            fd = 0
            while i < n and "0" <= t[i] <= "9":
                if fd < 6:
                    frac += (ord(t[i]) - 48) * scale
                    scale = scale // 10
                elif t[i] != "0":
                    raise _DurErr("more than microsecond precision")
                fd += 1
                i += 1
            if fd == 0 or i >= n or t[i] != "S" or not in_time:
                raise _DurErr("fraction only in seconds")
        d = t[i]
        i += 1
        table = order_time if in_time else order_date
        pos = -1
        for k in range(3):
            if table[k] == d:
                pos = k
        if pos < 0 or pos < rank:
            raise _DurErr("designator %r out of place" % d)
        rank = pos + 1
        seen += 1
        if in_time:
            usecs += (v * (3600, 60, 1)[pos]) * 1000000 + frac
        elif pos == 2:
            usecs += v * 86400 * 1000000
        else:
            months += v * (12, 1)[pos]
    if seen == 0:
        raise _DurErr("no component")
    return neg, months, usecs


def k_duration_iso(desc, F, days, secs, us):
    """duration_isoformat(timedelta-like with symbolic integer fields): the text is in the XSD duration lexical space
    and denotes the same number of microseconds (read back by a grammar-derived reader)"""
    from rdflib.xsd_datetime import duration_isoformat

    class TD:
        pass

    td = TD()
    td.days, td.seconds, td.microseconds = days, secs, us
    out = duration_isoformat(td)
    total = (days * 86400 + secs) * 1000000 + us
    try:
        neg, months, usecs = _ref_parse_duration(out)
    except _DurErr:
        return "duration_isoformat output is not in the XSD duration lexical space"
    if months != 0:
        return "a timedelta is written with years or months"
    if (-usecs if neg else usecs) != total:
        return "duration_isoformat output denotes a different duration"
    return None


NUMERIC_DT = ["integer", "decimal", "long", "int", "nonNegativeInteger", "double"]


def k_eq_numeric(desc, F, a, b):
    """Literal.eq on two numeric literals whose values are symbolic integers (lexical forms not modelled: the receiver is a Literal
    instance built without the constructor, with _value / _datatype set): value-space equality = equality of the values"""
    from rdflib.term import Literal, URIRef

    def mk(v, dt):
        inst = str.__new__(Literal, "0")
        inst._value = v
        inst._datatype = URIRef(XSD + dt)
        inst._language = None
        inst._ill_typed = False
        return inst

    x, y = mk(a, desc["dt1"]), mk(b, desc["dt2"])
    want = a == b
    try:
        got = Literal.eq(x, y)
    except TypeError:
        return "eq raises TypeError for two numeric literals with values"
    if bool(got) != bool(want):
        return "value-space equality of numeric literals disagrees with equality of their values"
    if bool(Literal.neq(x, y)) == bool(want):
        return "neq is not the negation of eq"
    if desc["dt1"] == "integer":
        # comparison with a plain Python int
        if bool(Literal.eq(x, b)) != bool(want):
            return "eq(literal, python int) disagrees with equality of the values"
    return None


BODIES = {"k-eq-numeric": k_eq_numeric, "k-int-range": k_int_range, "k-boolean": k_boolean, "k-days-in-month": k_days_in_month, "k-ws-idempotent": k_ws_idempotent,
          "k-duration-iso": k_duration_iso}

SEC = r"[0-9]+(?:\.[0-9]+)?S"
TIME = r"T(?:[0-9]+H(?:[0-9]+M)?(?:%s)?|[0-9]+M(?:%s)?|%s)" % (SEC, SEC, SEC)
XSD_DURATION = r"-?P(?:(?:[0-9]+Y(?:[0-9]+M)?(?:[0-9]+D)?|[0-9]+M(?:[0-9]+D)?|[0-9]+D)(?:%s)?|%s)" % (TIME, TIME)
XSD_LANGUAGE = r"[a-zA-Z]{1,8}(?:-[a-zA-Z0-9]{1,8})*"


def r_obligations():
    from .. import rx
    obs = {}

    def dur():
        from rdflib import xsd_datetime
        return rx.to_z3(XSD_DURATION), rx.to_z3(xsd_datetime.ISO8601_PERIOD_REGEX)

    def lang():
        from rdflib import term
        return rx.to_z3(XSD_LANGUAGE), rx.accepted_language(term, "_lang_tag_regex")

    obs["lexical/xsd:duration<=ISO8601_PERIOD_REGEX"] = (dur, "duration")
    obs["lexical/xsd:language<=_lang_tag_regex"] = (lang, "lang")
    return obs


def _replay(kind, w):
    try:
        if kind == "duration":
            from rdflib.xsd_datetime import parse_xsd_duration
            parse_xsd_duration(w)
            return None
        return c05._replay_witness(kind, w)
    except Exception as e:
        return "the real parser rejects the valid lexical form %r (%s)" % (w, type(e).__name__)


def run_custom(ob):
    saved, saved_rp = c05.r_obligations, c05._replay_witness
    try:
        c05.r_obligations = r_obligations
        c05._replay_witness = _replay
        return c05.run_custom(ob)
    finally:
        c05.r_obligations, c05._replay_witness = saved, saved_rp


def replay_custom(ob, cex):
    return _replay(r_obligations()[ob["desc"]["name"]][1], cex["witness"])


def obligations(tier, seed):
    obs = []
    for name in r_obligations():
        obs.append(dict(oid="R/" + name, family="regex-inclusion", runner="custom", desc={"name": name}, sig=[], budget=120))
    for dt in RANGES:
        obs.append(dict(oid="K/int-range/%s" % dt, family="k-int-range", desc={"dt": dt}, sig=[("v", "i")], budget=60))
    for d1 in NUMERIC_DT:
        for d2 in NUMERIC_DT:
            if d1 <= d2:
                obs.append(dict(oid="K/eq-numeric/%s-%s" % (d1, d2), family="k-eq-numeric", desc={"dt1": d1, "dt2": d2},
                                sig=[("a", "i"), ("b", "i")], budget=120))
    obs.append(dict(oid="K/boolean", family="k-boolean", desc={}, sig=[("s", "s")], pre=["len(s) <= 5"], budget=200))
    obs.append(dict(oid="K/days-in-month", family="k-days-in-month", desc={}, sig=[("y", "i"), ("m", "i")], pre=["1 <= m <= 12"], budget=120))
    n = 3 if tier == "quick" else 4
    for fn in ("collapse", "replace"):
        obs.append(dict(oid="K/ws-idempotent/%s/len<=%d" % (fn, n), family="k-ws-idempotent", desc={"fn": fn}, sig=[("s", "s")],
                        pre=["len(s) <= %d" % n], budget=300 if tier == "quick" else 2000))
    # duration_isoformat on a timedelta-like record with symbolic integer fields, split by magnitude so that each obligation has a
    # small number of digit-count paths: sub-minute with microseconds; time of day; days (either sign)
    dur = [("sub-minute/us-digits=%d" % k, ["days == 0", "0 <= secs < 60", "%d <= us < %d" % (10 ** (k - 1), 10 ** k)]) for k in range(1, 5)]
    dur += [("time-of-day", ["days == 0", "0 <= secs < 86400", "us == 0"]),
           ("days", ["-100 < days < 100", "0 <= secs < 60", "0 <= us < 10"])]
    for name, pre in dur:
        obs.append(dict(oid="K/duration-iso/%s" % name, family="k-duration-iso", desc={}, sig=[("days", "i"), ("secs", "i"), ("us", "i")], pre=pre,
                        budget=300 if tier == "quick" else 1200))
    return obs


def bounds(tier):
    return {"k-int-range": "13 integer-derived datatypes, all integers (unbounded)", "k-boolean": "all strings of length <= 5",
            "k-eq-numeric": "Literal.eq / neq for every pair of 6 numeric datatypes, values all integers (unbounded), and against a Python int",
            "k-days-in-month": "all integer years, months 1..12", "k-ws-idempotent": "all strings of length <= %d" % (3 if tier == "quick" else 4),
            "k-duration-iso": "duration_isoformat on a timedelta-like record: |days| < 100, every second of the day, microsecond counts below 10^4, "
                              "in 6 magnitude classes; the text is read back by a grammar-derived reader and must denote the same number of microseconds",
            "regex-inclusion": "XSD duration and language lexical spaces within the live parsing patterns, strings of every length",
            "outside": "float/double/decimal/date/time/dateTime value mappings, Literal construction itself, eq() on values"}


def finding_key(ob, cex, reason):
    if ob["family"] == "regex-inclusion":
        return "R|%s" % ob["desc"]["name"]
    return "%s|%s" % (ob["family"], reason)
