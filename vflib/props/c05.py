"""C05 — parsers accept legal spellings; N-Triples/N-Quads output is valid (engines R + K; partial).

R: W3C production subset-of live rdflib pattern (strings of every length, z3 regex theory), witness replayed
   through the real parser.  K: symbolic-string kernels of the term readers/writers (see vflib.kern).
"""
import itertools
import random
import re
import time

from .. import kern

PROPERTY = "C05"
FUNCTIONS = [
    "rdflib.plugins.parsers.ntriples.r_uriref / r_nodeid / literal / litinfo / r_wspace(s) / r_tail (live patterns)",
    "rdflib.term._lang_tag_regex", "rdflib.term._invalid_uri_chars", "rdflib.term._is_valid_uri", "rdflib.term._unique_id",
    "rdflib.plugins.parsers.notation3.langcode / integer_syntax / decimal_syntax / exponent_syntax (live patterns)",
    "rdflib.plugins.serializers.nt._quote_encode", "rdflib.plugins.serializers.nt._quoteLiteral",
    "rdflib.plugins.parsers.ntriples.unquote", "rdflib.compat.decodeUnicodeEscape",
    "rdflib.plugins.parsers.notation3.SinkParser.strconst / uEscape / UEscape",
    "rdflib.plugins.parsers.notation3.join",
    "rdflib.plugins.parsers.rdfxml.RDFXMLHandler.startElementNS / endElementNS / characters (language scoping)",
]
STUBS = ["SinkParser is instantiated without a sink (strconst only reads self.lines/_thisDoc)",
         "_quoteLiteral is driven with a str-subclass recorder carrying language/datatype attributes",
         "the line-level inclusion composes the live token patterns in the order read from the AST of the current "
         "W3CNTriplesParser.parseline; subject/predicate/object are replaced by the token alternatives those methods try (transcribed)"]
ASSUMPTIONS = ["claimed: token grammars (IRIREF, STRING_LITERAL_QUOTE, LANGTAG, BLANK_NODE_LABEL, numeric shorthand), the N-Triples literal "
               "writer, string readers of N-Triples and Turtle; not claimed: statement-level Turtle/TriG grammar, RDF/XML, JSON-LD, input "
               "source normalisation, well-formedness of whole XML/JSON documents",
               "z3's character universe ends at U+2FFFF: productions are clamped there"]

# ---- W3C productions (N-Triples / Turtle recommendations), transcribed as Python regex sources -------------------
HEX = "[0-9A-Fa-f]"
UCHAR = r"(?:\\u%s{4}|\\U%s{8})" % (HEX, HEX)
ECHAR = r"""\\[tbnrf"'\\]"""
IRIREF = r"<(?:[^\x00-\x20<>\"{}|^`\\]|%s)*>" % UCHAR
IRIREF_ABS = r"<[A-Za-z][A-Za-z0-9+.\-]*:(?:[^\x00-\x20<>\"{}|^`\\]|%s)*>" % UCHAR
STRING_LITERAL_QUOTE = r'"(?:[^\x22\x5C\x0A\x0D]|%s|%s)*"' % (ECHAR, UCHAR)
LANGTAG_BODY = r"[a-zA-Z]+(?:-[a-zA-Z0-9]+)*"
PN_BASE = ("A-Za-z\u00C0-\u00D6\u00D8-\u00F6\u00F8-\u02FF\u0370-\u037D\u037F-\u1FFF\u200C-\u200D\u2070-\u218F\u2C00-\u2FEF"
           "\u3001-\uD7FF\uF900-\uFDCF\uFDF0-\uFFFD\U00010000-\U0002FFFF")
PN_U = PN_BASE + "_"
PN_CHARS = PN_U + "\\-0-9\u00B7\u0300-\u036F\u203F-\u2040"
BLANK_NODE_LABEL = "_:[%s0-9](?:[%s.]*[%s])?" % (PN_U, PN_CHARS, PN_CHARS)
BLANK_NODE_LABEL_ASCII = r"_:[A-Za-z0-9_](?:[A-Za-z0-9_.\-]*[A-Za-z0-9_\-])?"
INTEGER = r"[+-]?[0-9]+"
DECIMAL = r"[+-]?[0-9]*\.[0-9]+"
EXPONENT = r"[eE][+-]?[0-9]+"
DOUBLE = r"[+-]?(?:[0-9]+\.[0-9]*%s|\.[0-9]+%s|[0-9]+%s)" % (EXPONENT, EXPONENT, EXPONENT)
WS = r"[\x20\x09]"
NT_LITERAL = STRING_LITERAL_QUOTE + r"(?:\^\^" + IRIREF_ABS + "|@" + LANGTAG_BODY + ")?"
NT_LINE = WS + "*(?:" + IRIREF_ABS + "|" + BLANK_NODE_LABEL_ASCII + ")" + WS + "*" + IRIREF_ABS + WS + "*(?:" + IRIREF_ABS + "|" + \
    BLANK_NODE_LABEL_ASCII + "|" + NT_LITERAL + ")" + WS + r"*\." + WS + "*(?:#[^\x0A\x0D]*)?"


def _live():
    import rdflib.plugins.parsers.notation3 as n3
    import rdflib.plugins.parsers.ntriples as nt
    import rdflib.term as term
    return nt, n3, term


def r_obligations():
    """name -> (builder of (A, B) z3 regexes, replay kind)"""
    from .. import rx
    import z3

    def sub(a_src, get_b):
        def build():
            nt, n3, term = _live()
            return rx.to_z3(a_src), get_b(nt, n3, term)
        return build

    obs = {}
    obs["read/IRIREF-abs<=r_uriref"] = (sub(IRIREF_ABS, lambda nt, n3, t: rx.to_z3(nt.r_uriref)), "nt-iri")
    obs["read/STRING_LITERAL_QUOTE<=ntriples.literal"] = (sub(STRING_LITERAL_QUOTE, lambda nt, n3, t: rx.to_z3(nt.literal)), "nt-string")
    obs["read/NT-literal<=r_literal"] = (sub(NT_LITERAL, lambda nt, n3, t: rx.to_z3(nt.r_literal)), "nt-literal")
    obs["read/LANGTAG<=term._lang_tag_regex"] = (sub(LANGTAG_BODY, lambda nt, n3, t: rx.accepted_language(t, "_lang_tag_regex")), "lang")
    obs["read/LANGTAG<=notation3.langcode"] = (sub(LANGTAG_BODY, lambda nt, n3, t: rx.to_z3(n3.langcode)), "ttl-lang")
    obs["read/BLANK_NODE_LABEL-ascii<=r_nodeid"] = (sub(BLANK_NODE_LABEL_ASCII, lambda nt, n3, t: rx.to_z3(nt.r_nodeid)), "nt-bnode")
    obs["read/BLANK_NODE_LABEL<=r_nodeid"] = (sub(BLANK_NODE_LABEL, lambda nt, n3, t: rx.to_z3(nt.r_nodeid)), "nt-bnode")
    obs["read/INTEGER<=integer_syntax"] = (sub(INTEGER, lambda nt, n3, t: rx.to_z3(n3.integer_syntax)), "ttl-number")
    obs["read/DECIMAL<=decimal_syntax"] = (sub(DECIMAL, lambda nt, n3, t: rx.to_z3(n3.decimal_syntax)), "ttl-number")
    obs["read/DOUBLE<=exponent_syntax"] = (sub(DOUBLE, lambda nt, n3, t: rx.to_z3(n3.exponent_syntax)), "ttl-number")
    # precedence: the Turtle reader tries exponent, decimal, integer in that order on the same text; a DECIMAL must not be
    # taken by the exponent pattern and an INTEGER by neither (full-match languages are pairwise disjoint)
    obs["read/DECIMAL-not-exponent"] = (
        lambda: (z3.Intersect(rx.to_z3(DECIMAL), rx.to_z3(_live()[1].exponent_syntax)), z3.Re(z3.StringVal("\x00never"))), "none-empty")
    obs["read/INTEGER-not-decimal-or-exponent"] = (
        lambda: (z3.Intersect(rx.to_z3(INTEGER), z3.Union(rx.to_z3(_live()[1].decimal_syntax), rx.to_z3(_live()[1].exponent_syntax))),
                 z3.Re(z3.StringVal("\x00never"))), "none-empty")

    def line_b(nt, n3, t):
        """the language W3CNTriplesParser.parseline accepts, composed from the live token patterns in the order in which
        the *current source* of parseline eats them (read from its AST); subject/predicate/object stand for the token
        alternatives their methods try"""
        import ast
        import inspect
        import textwrap
        tok = {"subject": z3.Union(rx.to_z3(nt.r_uriref), rx.to_z3(nt.r_nodeid)),
               "predicate": rx.to_z3(nt.r_uriref),
               "object": z3.Union(rx.to_z3(nt.r_uriref), rx.to_z3(nt.r_nodeid), rx.to_z3(nt.r_literal))}
        fn = ast.parse(textwrap.dedent(inspect.getsource(nt.W3CNTriplesParser.parseline))).body[0]
        seq = []
        for node in ast.walk(fn):
            if isinstance(node, ast.Call) and isinstance(node.func, ast.Attribute) and isinstance(node.func.value, ast.Name) \
                    and node.func.value.id == "self":
                if node.func.attr == "eat" and node.args and isinstance(node.args[0], ast.Name):
                    seq.append((node.lineno, node.col_offset, rx.to_z3(getattr(nt, node.args[0].id))))
                elif node.func.attr in tok:
                    seq.append((node.lineno, node.col_offset, tok[node.func.attr]))
        seq.sort(key=lambda x: (x[0], x[1]))
        if len(seq) < 5:
            raise rx.Unsupported("parseline no longer has the eat/subject/predicate/object structure")
        return z3.Concat(*[r for _, _, r in seq])

    obs["read/NT-line<=parseline-composition"] = (sub(NT_LINE, line_b), "nt-line")

    # write side
    def bnode_a():
        nt, n3, term = _live()
        pre = term._unique_id()
        return rx.to_z3("_:" + "".join("\\" + c if not c.isalnum() else c for c in pre) + "[0-9a-f]{32}"), rx.to_z3(BLANK_NODE_LABEL)

    obs["write/BNode()-label<=BLANK_NODE_LABEL"] = (bnode_a, "none")

    def iri_a():
        nt, n3, term = _live()
        bad = term._invalid_uri_chars
        ok_char = z3.Intersect(rx.to_z3(r"[A-Za-z0-9\-._~:/?#\[\]@!$&'()*+,;=%\u00A0-\uD7FF\uF900-\uFDCF\uFDF0-\uFFEF\U00010000-\U0002FFFD]"),
                               z3.Complement(z3.Union(*[rx.lit(c) for c in bad])) if len(bad) > 1 else z3.Complement(rx.lit(bad)))
        return z3.Concat(rx.lit("<"), z3.Star(ok_char), rx.lit(">")), rx.to_z3(IRIREF)

    obs["write/valid-URIRef.n3()<=IRIREF"] = (iri_a, "none")
    return obs


def _replay_witness(kind, w):
    """feed the witness (a string of the W3C language that the live pattern misses) to the real parser"""
    from rdflib import Graph
    try:
        if kind == "nt-iri":
            doc = "%s <urn:p> <urn:o> .\n" % w
            g = Graph().parse(data=doc, format="nt")
            return None if len(g) == 1 else "N-Triples parser lost a legal IRI"
        if kind == "nt-bnode":
            doc = "%s <urn:p> <urn:o> .\n" % w
            g = Graph().parse(data=doc, format="nt")
            return None if len(g) == 1 else "N-Triples parser lost a statement with a legal blank node label"
        if kind in ("nt-string", "nt-literal"):
            doc = "<urn:s> <urn:p> %s .\n" % w
            g = Graph().parse(data=doc, format="nt")
            return None if len(g) == 1 else "N-Triples parser lost a legal literal"
        if kind == "nt-line":
            g = Graph().parse(data=w + "\n", format="nt")
            return None if len(g) == 1 else "N-Triples parser lost a legal line"
        if kind == "lang":
            from rdflib import Literal
            Literal("x", lang=w)
            return None
        if kind == "lang-accepted":
            # the witness is accepted by the live pattern but is not a LANGTAG: does Literal() take it?
            from rdflib import Literal
            try:
                lit = Literal("x", lang=w)
            except Exception:
                return None
            if lit.language is not None and re.fullmatch(LANGTAG_BODY, str(lit.language)) is None:
                return "Literal() accepts the language tag %r, which no RDF syntax can write (n3() gives %r)" % (w, lit.n3())
            return None
        if kind == "ttl-lang":
            doc = '<urn:s> <urn:p> "x"@%s .\n' % w
            g = Graph().parse(data=doc, format="turtle")
            return None if len(g) == 1 else "Turtle parser lost a legal language-tagged literal"
        if kind == "ttl-number":
            doc = "<urn:s> <urn:p> %s .\n" % w
            g = Graph().parse(data=doc, format="turtle")
            return None if len(g) == 1 else "Turtle parser lost a legal numeric literal"
    except Exception as e:
        return "the real parser rejects the legal text %r (%s: %s)" % (w, type(e).__name__, str(e)[:120])
    return None


def run_custom(ob):
    from .. import rx
    name = ob["desc"]["name"]
    build, kind = r_obligations()[name]
    t0 = time.time()
    out = {"paths": 1, "queries": 1, "solver_s": 0.0, "cpu_s": 0.0, "cex": None, "detail": ""}
    try:
        a, b = build()
        res, w, dt = rx.included(a, b, timeout_ms=int(ob["budget"] * 1000))
    except rx.Unsupported as e:
        out.update(verdict="inconclusive", detail="regex construct not understood: %s" % e)
        return out
    out["solver_s"] = round(dt, 3)
    out["cpu_s"] = round(time.time() - t0, 3)
    if res == "unsat":
        out["verdict"] = "confirmed"
        out["twin"] = {"verdict": "refuted", "replayed_ok": True, "cex": None}  # non-vacuity: see twin check below
        # reachability twin: A itself must be satisfiable (an empty production would pass everything)
        import z3
        s = z3.String("s")
        sol = z3.Solver()
        sol.add(z3.InRe(s, a))
        if sol.check() != z3.sat and kind != "none-empty":
            out["twin"] = {"verdict": "confirmed", "replayed_ok": False, "cex": None}
        out["queries"] = 2
    elif res == "sat":
        w = rx.unescape_z3(w)
        out["cex"] = {"witness": w}
        if kind in ("none", "none-empty"):
            out["verdict"] = "refuted"
            out["replay"] = {"falsy": "str", "reason": "%s: witness %r" % (name, w)}
        else:
            r = _replay_witness(kind, w)
            out["verdict"] = "refuted"
            out["replay"] = {"falsy": "str", "reason": "%s: %s" % (name, r)} if r else None
            out["detail"] = "witness %r" % w
    else:
        out.update(verdict="inconclusive", detail="solver answered %s" % res)
    return out


def replay_custom(ob, cex):
    name = ob["desc"]["name"]
    kind = r_obligations()[name][1]
    if kind in ("none", "none-empty"):
        return "witness %r" % cex.get("witness")
    return _replay_witness(kind, cex["witness"])


BODIES = dict(kern.BODIES)


def obligations(tier, seed):
    obs = []
    for name in r_obligations():
        obs.append(dict(oid="R/" + name, family="regex-inclusion", runner="custom", desc={"name": name}, sig=[], budget=120))
    n = 3 if tier == "quick" else 4
    obs.append(dict(oid="K/nt-writer/len<=%d" % n, family="k-nt-writer", desc={}, sig=[("s", "s")], pre=["len(s) <= %d" % n],
                    budget=400 if tier == "quick" else 3000))
    for kind in ("plain", "lang", "dt"):
        obs.append(dict(oid="K/nt-quoteliteral/%s" % kind, family="k-nt-quoteliteral", desc={"kind": kind},
                        sig=[("s", "s"), ("x", "s")], pre=["len(s) <= 2", "len(x) == 0"], budget=300))
    escs = kern.ESCAPES if tier == "thorough" else ["", "\\n", "\\\"", "\\\\", "\\u0041", "\\U0001F600", "\\u0022", "\\'", "\\u0041cafe"]
    m = 1 if tier == "quick" else 2
    for esc in escs:
        obs.append(dict(oid="K/nt-reader/%r" % esc, family="k-nt-reader", desc={"escape": esc}, sig=[("a", "s"), ("b", "s")],
                        pre=["len(a) <= %d" % m, "len(b) <= %d" % m], budget=300 if tier == "quick" else 1500))
        for delim in ('"', "'", '"""', "'''"):
            obs.append(dict(oid="K/ttl-reader/%s/%r" % ({"\"": "dq", "'": "sq", '"""': "ldq", "'''": "lsq"}[delim], esc),
                            family="k-ttl-reader", desc={"escape": esc, "delim": delim, "tail": " ."},
                            sig=[("a", "s"), ("b", "s")], pre=["len(a) <= %d" % m, "len(b) <= %d" % m],
                            budget=300 if tier == "quick" else 1500))
    for depth in (0, 1, 2):
        for ups in (0, 1, 2, 3):
            if ups > depth + 1:
                continue
            for extra in ({}, {"dot": True}, {"frag": True}):
                if extra and ups not in (0, depth):
                    continue
                d = dict(depth=depth, ups=ups, **extra)
                obs.append(dict(oid="K/iri-join/depth%d/ups%d%s" % (depth, ups, "".join("/" + k for k in extra)), family="k-iri-join", desc=d,
                                sig=[("s1", "s"), ("s2", "s"), ("f", "s"), ("name", "s")],
                                pre=["len(s1) <= 1", "len(s2) <= 1", "len(f) <= 1", "len(name) <= 1"], budget=400))
    for shape in ("two-blocks", "default-then-block", "graph-keyword", "one-block"):
        obs.append(dict(oid="K/trig-labels/%s" % shape, family="k-doc-labels", desc={"shape": shape}, sig=[("l1", "i"), ("l2", "i")],
                        pre=["97 <= l1 <= 122", "97 <= l2 <= 122"], budget=600, twin_budget=300))
    for second in ("at-prefix", "sparql-prefix", "sparql-prefix-lower"):
        for third in (False, True):
            obs.append(dict(oid="K/ttl-prefix-redeclare/%s%s" % (second, "+again" if third else ""), family="k-doc-prefix",
                            desc={"second": second, "third": third}, sig=[("c1", "i"), ("c2", "i")],
                            pre=["97 <= c1 <= 122", "97 <= c2 <= 122"], budget=600, twin_budget=300))
    for present in ([1, 0, 0], [1, 0, 1], [1, 1, 0], [0, 1, 1], [1, 1, 1], [0, 0, 1], [0, 0, 0]):
        obs.append(dict(oid="K/rdfxml-lang/%s" % "".join(map(str, present)), family="k-rdfxml-lang", desc={"present": present},
                        sig=[("l0", "s"), ("l1", "s"), ("l2", "s")], pre=["len(l0) <= 1", "len(l1) <= 1", "len(l2) <= 1"],
                        budget=400))
    return obs


def bounds(tier):
    return {"regex-inclusion": "%d inclusions between W3C productions and live rdflib patterns, strings of every length (z3 regex theory; "
                               "characters up to U+2FFFF)" % len(r_obligations()),
            "k-nt-writer": "nt._quote_encode on every string of length <= %d: output is a STRING_LITERAL_QUOTE, a grammar-derived decoder and "
                           "rdflib's own reader give back the input" % (3 if tier == "quick" else 4),
            "k-nt-reader / k-ttl-reader": "ntriples.unquote and SinkParser.strconst (4 quoting styles) vs a grammar-derived decoder on "
                                          "a <escape> b with a, b symbolic strings of length <= %d and %d enumerated escapes"
                                          % (1 if tier == "quick" else 2, 8 if tier == "quick" else len(kern.ESCAPES)),
            "k-doc-prefix": "a Turtle document declaring a prefix, using it, declaring a prefix again (@prefix / PREFIX / prefix; the two prefix names end in "
                            "symbolic code points, so 'same name or not' is the solver's choice) and using it; optionally the first name once more: "
                            "every prefixed name expands with the declaration in force",
            "k-doc-labels": "4 TriG document shapes with two blank node labels whose last character is a symbolic code point a-z: the real statement "
                            "parser into a real Dataset; same label <=> same node",
            "k-iri-join": "notation3.join (resolution of relative IRIs against @base): base paths 0-2 levels deep, references with 0-3 '../' "
                          "(also './' and a fragment), segment and file names symbolic (length <= 1 over ab); expected per RFC 3986 5.2",
            "k-rdfxml-lang": "RDFXMLHandler driven with the SAX events of a three-level document; xml:lang presence by shape, values symbolic "
                             "strings (length <= 1 over ab, incl. the empty string that resets the language)",
            "outside": "statement-level grammar (prefixes, base, ; , [] (), comments, relative IRIs), the rest of RDF/XML, JSON-LD, TriG graph blocks, "
                       "input source kinds, longer strings"}


def finding_key(ob, cex, reason):
    if ob["family"] == "regex-inclusion":
        return "R|%s" % ob["desc"]["name"]
    return "%s|%s" % (ob["family"], reason)
