"""C13 — reading a graph never changes it; the same read twice gives the same answer (engine S).

Frame condition, no oracle: snapshot of the store (every context's triples, the set of contexts) taken
through the store interface before and after a read issued through the Graph/Dataset API.
"""
import itertools
import random

from rdflib import BNode, Dataset, Graph, Literal, URIRef, Variable
from rdflib.graph import DATASET_DEFAULT_GRAPH_ID
from rdflib.plugins.stores.memory import Memory

from .. import sparqlref as R
from ..model import SHAPES8, pat_of, same_multiset, same_set, teq, tin
from . import c04, c08, c11

PROPERTY = "C13"
FUNCTIONS = sorted(set(
    ["rdflib.graph.Graph.__getitem__", "rdflib.graph.Graph.subjects", "rdflib.graph.Graph.objects", "rdflib.graph.Graph.value",
     "rdflib.graph.Graph.__add__", "rdflib.graph.Graph.__sub__", "rdflib.graph.Graph.__mul__", "rdflib.graph.Graph.__xor__",
     "rdflib.graph.ConjunctiveGraph._graph", "rdflib.graph.ConjunctiveGraph.get_context", "rdflib.graph.ConjunctiveGraph.__contains__",
     "rdflib.graph.ConjunctiveGraph.triples", "rdflib.graph.ConjunctiveGraph.quads", "rdflib.graph.Dataset.graphs",
     "rdflib.plugins.sparql.evaluate.evalQuery", "rdflib.plugins.sparql.evaluate.evalConstructQuery",
     "rdflib.plugins.sparql.evaluate.evalDescribeQuery", "rdflib.plugins.sparql.sparql.QueryContext.__init__",
     "rdflib.paths.eval_path"] + c04.FUNCTIONS[:20]))
STUBS = c04.STUBS + ["shape-symbolic supplement: serializers / isomorphic / to_canonical_graph / graph_diff run untraced on datasets built "
                     "from concrete terms whose membership matrix is symbolic booleans (labelled family 'purity-ser')"]
ASSUMPTIONS = ["the snapshot is read through the store interface (Memory.triples / contexts), the reads under test go through the "
               "Graph / Dataset / SPARQL API"]

NAMES = {"d": DATASET_DEFAULT_GRAPH_ID, "g1": URIRef("urn:g1"), "b1": BNode("b1"), "e": URIRef("urn:empty")}


def snapshot(store, idents):
    snap = []
    for ident in idents:
        ts = [t for t, _ in store.triples((None, None, None), Graph(store, ident))]
        snap.append((ident, ts))
    # the default graph always exists (C02); rdflib registers it in the store lazily, which is not a change
    ctxs = sorted(set(str(c.identifier) for c in store.contexts()) | {str(DATASET_DEFAULT_GRAPH_ID)})
    return snap, ctxs


def same_snapshot(a, b):
    if a[1] != b[1]:
        return "the set of graphs in the store changed"
    for (i1, t1), (i2, t2) in zip(a[0], b[0]):
        if len(t1) != len(t2):
            return "the number of triples in graph %s changed" % i1
        for t in t1:
            if not tin(t, t2):
                return "a triple of graph %s disappeared or changed" % i1
    return None


def _norm_rows(res, vs):
    rows = []
    for b in res["bindings"]:
        row = []
        for v in vs:
            try:
                row.append(b[v])
            except KeyError:
                row.append(None)
        rows.append(tuple(row))
    return rows


def _answer(kind, res):
    if "askAnswer" in res:
        return [("ask", bool(res["askAnswer"]))]
    if "graph" in res:
        return [tuple(t) for t in res["graph"]]
    return _norm_rows(res, list(res["vars_"]))


def _same_answer(a, b):
    return same_multiset(a, b)


def body_sparql(desc, F, *args):
    """a catalogue query evaluated twice on a Graph or Dataset"""
    from rdflib.plugins.sparql.evaluate import evalQuery
    g, data, i = c04.make_data(desc, F, args)
    store = g.store
    if desc.get("dataset"):
        g.graph(NAMES["e"])  # an existing empty graph
        idents = [DATASET_DEFAULT_GRAPH_ID, R.IRIS["g1"], R.IRIS["g2"], NAMES["e"]]
    else:
        idents = [g.identifier]
    consts = [F.iri(args[i + j]) for j in range(desc["nconst"])]
    q = c04.prepare(desc["text"], consts)
    before = snapshot(store, idents)
    a1 = _answer(desc["form"], evalQuery(g, q))
    mid = snapshot(store, idents)
    r = same_snapshot(before, mid)
    if r:
        return "query changed the data: %s [%s]" % (r, desc["name"])
    a2 = _answer(desc["form"], evalQuery(g, q))
    if desc["form"] != "construct" or not desc.get("fresh_bnodes"):
        if not _same_answer(a1, a2):
            return "the same query gave two different answers [%s]" % desc["name"]
    r = same_snapshot(before, snapshot(store, idents))
    if r:
        return "second evaluation changed the data: %s [%s]" % (r, desc["name"])
    return None


def body_api(desc, F, *args):
    """non-SPARQL reads on a Dataset (default_union by shape) with g1, _:b1, an empty graph"""
    ds = Dataset(default_union=desc["union"])
    store = ds.store
    ds.graph(NAMES["e"])
    i = 0
    if desc["read"] == "slice":
        # Graph.__getitem__ asserts IdentifiedNode subjects/predicates: use symbolic IRIs
        class _F:
            node = staticmethod(F.iri)
        F = _F
    for gn in desc["data"]:
        t = (F.node(args[i]), F.node(args[i + 1]), F.node(args[i + 2]))
        i += 3
        if gn == "d":
            ds.add(t)
        else:
            ds.add((t[0], t[1], t[2], NAMES[gn]))
    q = (F.node(args[i]), F.node(args[i + 1]), F.node(args[i + 2]))
    i += 3
    idents = [NAMES["d"], NAMES["g1"], NAMES["b1"], NAMES["e"]]
    view = Graph(store, NAMES["g1"])
    before = snapshot(store, idents)
    read = desc["read"]
    out = []
    for rep in (0, 1):
        if read == "iter":
            a = list(view) + list(ds.quads())
        elif read == "len-in":
            a = [len(view), q in view, q in ds, (q[0], q[1], q[2], NAMES["g1"]) in ds, (q[0], q[1], q[2], NAMES["e"]) in ds]
        elif read == "slice":
            a = []
            for bits in desc["bits"]:
                pat = pat_of(bits, q)
                r = view[pat[0]:pat[1]:pat[2]]
                a.append(r if isinstance(r, bool) else list(r))
        elif read == "triples-ctx":
            a = []
            for gn in ("g1", "b1", "e"):
                a.append(list(ds.triples(pat_of(desc["bits"][0], q), context=Graph(store, NAMES[gn]))))
                a.append(list(ds.quads((None, None, None, NAMES[gn]))))
        elif read == "accessors":
            a = [list(view.subjects(q[1], q[2])), list(view.objects(q[0], q[1])), list(view.predicates(q[0], q[2])),
                 list(view.subject_objects(q[1])), view.value(q[0], q[1], None, any=True), list(ds.graphs())]
            a[-1] = sorted(str(x.identifier) for x in a[-1])
        elif read == "operators":
            other = Graph(store, NAMES["b1"])
            a = [list(view + other), list(view - other), list(view * other), list(view ^ other)]
        elif read == "foreign-graph-arg":
            # a Graph object living in ANOTHER store, used only to name the graph in read calls
            foreign = Graph(Memory(), NAMES["g1"])
            foreign.add((F.node(args[i]), F.node(args[i + 1]), F.node(args[i + 2])))
            a = [(q[0], q[1], q[2], foreign) in ds, list(ds.triples(pat_of("111", q), context=foreign)),
                 list(ds.quads((None, None, None, foreign)))]
        elif read == "path":
            p = c11.build(desc["path"])
            a = [list(view.triples((None, p, None))), list(view.triples((q[0], p, None))), list(ds.triples((None, p, q[2])))]
        else:
            raise AssertionError(read)
        out.append(a)
        r = same_snapshot(before, snapshot(store, idents))
        if r:
            return "%s changed the data: %s" % (read, r)
    if not _deep_same(out[0], out[1]):
        return "%s gave two different answers on an unchanged dataset" % read
    return None


def _deep_same(a, b):
    if isinstance(a, list) and isinstance(b, list):
        if a and isinstance(a[0], tuple):
            return same_multiset(a, b)
        if len(a) != len(b):
            return False
        return all(_deep_same(x, y) for x, y in zip(a, b))
    if a is None or b is None:
        return a is b
    if isinstance(a, tuple):
        return teq(a, b)
    return a == b


# ---- shape-symbolic supplement -----------------------------------------------------------------
CT = [(URIRef("urn:a"), URIRef("urn:p"), URIRef("urn:b")), (BNode("x"), URIRef("urn:p"), Literal("l", lang="en")),
      (URIRef("urn:b"), URIRef("urn:q"), BNode("x"))]
# a typed literal whose datatype lives in a namespace that nothing else uses (prefix generation while writing)
TYPED = (URIRef("urn:a"), URIRef("urn:q"), Literal("v", datatype=URIRef("http://dt.example/ns#T")))
FORMATS_DS = ["nquads", "trig", "trix", "json-ld", "hext", "patch"]
FORMATS_G = ["nt", "turtle", "longturtle", "n3", "xml", "pretty-xml", "json-ld", "hext"]


def body_ser(desc, F, *args):
    """args: booleans — membership of CT[j] in default / g1 / _:b1"""
    ds = Dataset(default_union=desc["union"])
    store = ds.store
    ds.graph(NAMES["e"])
    k = 0
    for gn in ("d", "g1", "b1"):
        for t in CT:
            if args[k]:
                if gn == "d":
                    ds.add(t)
                else:
                    ds.add((t[0], t[1], t[2], NAMES[gn]))
            k += 1
    if desc.get("typed"):
        ds.add((TYPED[0], TYPED[1], TYPED[2], NAMES["g1"]))
    idents = [NAMES["d"], NAMES["g1"], NAMES["b1"], NAMES["e"]]
    before = snapshot(store, idents)
    what = desc["what"]

    def go():
        from rdflib.compare import graph_diff, isomorphic, to_canonical_graph, to_isomorphic
        if what.startswith("ds:"):
            kw = {"operation": "add"} if what[3:] == "patch" else {}
            return ds.serialize(format=what[3:], **kw)
        view = Graph(store, NAMES["g1"] if desc.get("graph") != "b1" else NAMES["b1"])
        if what.startswith("g:"):
            return view.serialize(format=what[2:])
        other = Graph(store, NAMES["b1"])
        if what == "isomorphic":
            return isomorphic(view, other)
        if what == "canonical":
            return sorted(to_canonical_graph(view).serialize(format="nt").splitlines())
        if what == "diff":
            return [sorted(x.serialize(format="nt").splitlines()) for x in graph_diff(view, other)]
        if what == "describe":
            return sorted(ds.query("DESCRIBE <urn:a>").graph.serialize(format="nt").splitlines())
        raise AssertionError(what)

    try:
        a1 = c04.run_untraced(go)
    except Exception as e:
        a1 = "exception %s" % type(e).__name__
    r = same_snapshot(before, snapshot(store, idents))
    if r:
        return "%s changed the data: %s" % (what, r)
    try:
        a2 = c04.run_untraced(go)
    except Exception as e:
        a2 = "exception %s" % type(e).__name__
    if what in ("isomorphic", "canonical", "diff") and a1 != a2:
        return "%s gave two different answers" % what
    if (what.startswith("ds:") or what.startswith("g:")) and isinstance(a1, str) and isinstance(a2, str):
        # the order of statements / graph blocks may legitimately vary (set iteration order, the default graph being
        # registered lazily by the first run): compare the documents as multisets of lines
        if sorted(a1.splitlines()) != sorted(a2.splitlines()):
            return "serialising twice (%s) gave two different documents for the unchanged data" % what
    r = same_snapshot(before, snapshot(store, idents))
    if r:
        return "second %s changed the data: %s" % (what, r)
    return None


def untraced():
    from ..driver import default_untraced
    return default_untraced() + [Graph.parse]


def body_from(desc, F, *args):
    """a query with a dataset clause naming a document that is not a graph of the dataset (rdflib loads it into a scratch
    graph for the duration of the query): the user's dataset must not receive it"""
    import os
    from rdflib.plugins.sparql.evaluate import evalQuery
    from rdflib.plugins.sparql.processor import prepareQuery
    ds = Dataset(default_union=desc["union"])
    store = ds.store
    i = 0
    for gn in desc["data"]:
        t = (F.iri(args[i]), F.iri(args[i + 1]), F.iri(args[i + 2]))
        i += 3
        if gn == "d":
            ds.add(t)
        else:
            ds.add((t[0], t[1], t[2], NAMES[gn]))
    doc = "file://" + os.path.join(os.path.dirname(os.path.dirname(os.path.abspath(__file__))), "data", "from_doc.ttl")
    text = desc["text"].replace("DOC", doc)
    q = c04.run_untraced(lambda: prepareQuery(text))
    idents = [NAMES["d"], NAMES["g1"], NAMES["b1"], URIRef(doc)]
    before = snapshot(store, idents)
    for rep in (1, 2):
        try:
            res = evalQuery(ds, q)
            list(res["bindings"]) if "bindings" in res else None
        except Exception:
            pass  # an unloadable source is not the subject; the dataset must be unchanged either way
        r = same_snapshot(before, snapshot(store, idents))
        if r:
            return "a query with FROM changed the dataset (evaluation %d): %s" % (rep, r)
    return None


BODIES = {"purity-from": body_from, "purity-sparql": body_sparql, "purity-api": body_api, "purity-ser": body_ser}


def obligations(tier, seed):
    rnd = random.Random(seed)
    obs = []
    # SPARQL reads: C04 catalogue (select + ask + construct), GRAPH queries on a Dataset
    S = c04.singles()
    names = sorted(S) if tier == "thorough" else [n for n in sorted(S) if n.split("/")[0] in (
        "bgp2", "optional", "union", "minus", "exists", "subselect", "bind-var", "values-1", "filter-eq-const", "join-groups")]
    for name in names:
        group, nc = S[name]
        for form in ("select", "construct") if tier == "quick" else ("select", "ask", "construct"):
            ds = c04.data_shapes(group, 2)[0]
            dd = [(d, "d") for d in ds]
            vs = R.vars_in_scope(group)
            template = [[c04.V(vs[0]), c04.Q, c04.V(vs[-1])]] if form == "construct" else None
            obs.append(dict(oid="sparql/%s/%s" % (form, name), family="purity-sparql",
                            desc={"name": name, "group": group, "nconst": nc, "form": form, "proj": "*", "template": template,
                                  "text": R.render(form, group, "*", template), "data": [list(x) for x in dd], "dataset": False},
                            sig=[("x%d" % i, "i") for i in range(2 * len(dd) + nc)], budget=200))
    for name, (group, nc) in c04.graph_queries().items():
        for dd in c04.data_shapes(group, 2, graphs=True)[: 1 if tier == "quick" else 3]:
            obs.append(dict(oid="sparql/select/%s/%s" % (name, ",".join("%s@%s" % x for x in dd)), family="purity-sparql",
                            desc={"name": name, "group": group, "nconst": nc, "form": "select", "proj": "*", "template": None,
                                  "text": R.render("select", group), "data": [list(x) for x in dd], "dataset": True},
                            sig=[("x%d" % i, "i") for i in range(2 * len(dd) + nc)], budget=300))
    # modifiers/aggregates on a Graph: reuse C08 text, evaluate twice (answer as multiset)
    M = c08.modsets()
    for mname in (sorted(M) if tier == "thorough" else ["distinct-o", "order-o-s", "group-count", "group-min", "implicit-count-star"]):
        mods = M[mname]
        if mods.get("limit") or mods.get("offset"):
            continue
        desc8 = {"group": c08.BASES["bgp"], "mods": mods}
        obs.append(dict(oid="sparql/mod/%s" % mname, family="purity-sparql",
                        desc={"name": "mod/" + mname, "group": c08.BASES["bgp"], "nconst": 0, "form": "select", "proj": "*", "template": None,
                              "text": c08.render(desc8), "data": [["p", "d"], ["p", "d"]], "dataset": False},
                        sig=[("x%d" % i, "i") for i in range(4)], budget=200))
    # API reads on a Dataset
    datas = [["d", "g1"], ["g1", "b1"], ["g1", "g1"]] if tier == "quick" else [["d", "g1"], ["g1", "b1"], ["g1", "g1"], ["d", "g1", "b1"], ["b1", "b1"]]
    reads = [("iter", {}), ("len-in", {}), ("slice", {"bits": ["000", "011", "101", "110"]}), ("slice", {"bits": ["001", "010", "100", "111"]}),
             ("triples-ctx", {"bits": ["111"]}), ("triples-ctx", {"bits": ["011"]}), ("accessors", {}), ("operators", {}),
             ("foreign-graph-arg", {})]
    for p in c11.DEPTH1[: 12 if tier == "thorough" else 8]:
        reads.append(("path", {"path": p}))
    for union in (False, True):
        for data in datas:
            for read, extra in reads:
                if tier == "quick" and union and read in ("slice", "operators") and data != ["g1", "b1"]:
                    continue
                if read == "path" and (len(data) > 2 or (tier == "quick" and data != ["g1", "g1"])):
                    continue
                d = dict(union=union, data=data, read=read, **extra)
                nsym = 3 * (len(data) + 1) + (3 if read == "foreign-graph-arg" else 0)
                tag = extra.get("bits", [""])[0] if "bits" in extra else (c11.show(extra["path"]) if "path" in extra else "")
                obs.append(dict(oid="api/%s/%s/%s%s" % ("union" if union else "plain", "+".join(data), read, "/" + tag if tag else ""),
                                family="purity-api", desc=d, sig=[("x%d" % i, "i") for i in range(nsym)], budget=300))
    # dataset clauses naming a loadable document
    for union in (False, True):
        for data in (["g1"], ["d", "g1"]):
            for nm, text in (("from", "SELECT * FROM <DOC> WHERE { ?s ?p ?o }"),
                             ("from-named", "SELECT * FROM NAMED <DOC> WHERE { GRAPH ?g { ?s ?p ?o } }"),
                             ("from-both", "SELECT * FROM <urn:g1> FROM NAMED <DOC> WHERE { ?s ?p ?o }"),
                             ("ask-from", "ASK FROM <DOC> { ?s ?p ?o }"),
                             ("construct-from", "CONSTRUCT { ?s ?p ?o } FROM <DOC> WHERE { ?s ?p ?o }")):
                obs.append(dict(oid="from/%s/%s/%s" % ("union" if union else "plain", "+".join(data), nm), family="purity-from",
                                desc={"union": union, "data": data, "text": text}, sig=[("x%d" % i, "i") for i in range(3 * len(data))],
                                budget=300))
    # shape-symbolic supplement
    whats = ["ds:" + f for f in FORMATS_DS] + ["g:" + f for f in FORMATS_G] + ["isomorphic", "canonical", "diff", "describe"]
    for union in (False, True):
        for what in whats:
            if union and tier == "quick" and not what.startswith("ds:"):
                continue
            obs.append(dict(oid="ser/%s/%s" % ("union" if union else "plain", what), family="purity-ser",
                            desc={"union": union, "what": what}, sig=[("b%d" % i, "b") for i in range(9)], budget=400))
            if not union and (what.startswith("ds:") or what.startswith("g:")):
                obs.append(dict(oid="ser/typed/%s" % what, family="purity-ser",
                                desc={"union": False, "what": what, "typed": True}, sig=[("b%d" % i, "b") for i in range(9)], budget=400))
    return obs


def bounds(tier):
    return {"purity-sparql": "C04 single-operator templates (SELECT, CONSTRUCT%s), GRAPH templates on a Dataset with an existing empty graph, "
                             "C08 modifier sets; n=2 symbolic triples; each query evaluated twice" % ("" if tier == "quick" else ", ASK"),
            "purity-api": "Dataset(default_union on/off) with graphs default, <urn:g1>, _:b1 and an empty graph, n=2%s symbolic triples: iteration, "
                          "len, membership, 8 slice shapes, restricted triples()/quads(), subjects/objects/predicates/value/graphs(), "
                          "operators + - * ^, read calls naming the graph by a Graph object of another store, path evaluation"
                          % ("" if tier == "quick" else "-3"),
            "purity-from": "queries with FROM / FROM NAMED naming a loadable local document, on a Dataset with 1-2 symbolic triples: the dataset's "
                           "graphs and quads are unchanged (the document parse itself runs untraced)",
            "purity-ser": "shape-symbolic only (9 symbolic booleans = membership of 3 concrete triples in 3 graphs, all 512 cases): every "
                          "serializer, isomorphic, to_canonical_graph, graph_diff, DESCRIBE; run untraced",
            "outside": "stores other than Memory, RAND/NOW/UUID queries"}


def finding_key(ob, cex, reason):
    return "%s|%s" % (ob["family"], reason.split(" [")[0])
