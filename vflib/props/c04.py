"""C04 — SPARQL graph patterns evaluate to the solution multiset the algebra defines (engine S).

Shape: query (generated from a harness AST, rendered to text, parsed by rdflib's real parser,
translated by rdflib's real algebra module — concretely, outside the symbolic region), predicate and
graph of every data triple.  Content: subjects/objects of the data and the constants of the query
(SymIRI, unbounded identities).  Oracle: vflib.sparqlref (bottom-up algebra evaluation).
"""
import itertools
import random

from rdflib import Dataset, Graph, Literal, URIRef, Variable
from rdflib.namespace import XSD

from .. import sparqlref as R
from ..model import same_set, teq, tin

PROPERTY = "C04"
FUNCTIONS = [
    "rdflib.plugins.sparql.evaluate.evalQuery", "rdflib.plugins.sparql.evaluate.evalPart", "rdflib.plugins.sparql.evaluate.evalBGP",
    "rdflib.plugins.sparql.evaluate.evalJoin", "rdflib.plugins.sparql.evaluate.evalLazyJoin", "rdflib.plugins.sparql.evaluate.evalLeftJoin",
    "rdflib.plugins.sparql.evaluate.evalUnion", "rdflib.plugins.sparql.evaluate.evalMinus", "rdflib.plugins.sparql.evaluate.evalFilter",
    "rdflib.plugins.sparql.evaluate.evalExtend", "rdflib.plugins.sparql.evaluate.evalValues", "rdflib.plugins.sparql.evaluate.evalMultiset",
    "rdflib.plugins.sparql.evaluate.evalGraph", "rdflib.plugins.sparql.evaluate.evalProject", "rdflib.plugins.sparql.evaluate.evalSelectQuery",
    "rdflib.plugins.sparql.evaluate.evalAskQuery", "rdflib.plugins.sparql.evaluate.evalConstructQuery", "rdflib.plugins.sparql.evaluate.evalDistinct",
    "rdflib.plugins.sparql.evalutils._join", "rdflib.plugins.sparql.evalutils._minus", "rdflib.plugins.sparql.evalutils._ebv",
    "rdflib.plugins.sparql.evalutils._eval", "rdflib.plugins.sparql.evalutils._fillTemplate",
    "rdflib.plugins.sparql.sparql.FrozenDict", "rdflib.plugins.sparql.sparql.FrozenBindings", "rdflib.plugins.sparql.sparql.Bindings",
    "rdflib.plugins.sparql.sparql.QueryContext", "rdflib.plugins.sparql.operators.RelationalExpression",
    "rdflib.plugins.sparql.operators.ConditionalAndExpression", "rdflib.plugins.sparql.operators.ConditionalOrExpression",
    "rdflib.plugins.sparql.operators.UnaryNot", "rdflib.plugins.sparql.operators.Builtin_BOUND", "rdflib.plugins.sparql.operators.Builtin_sameTerm",
    "rdflib.plugins.sparql.operators.Builtin_isIRI", "rdflib.plugins.sparql.operators.Builtin_COALESCE", "rdflib.plugins.sparql.operators.Builtin_IF",
    "rdflib.plugins.sparql.operators.Builtin_EXISTS",
    "(concrete, before the symbolic region) rdflib.plugins.sparql.parser.parseQuery, rdflib.plugins.sparql.algebra.translateQuery",
]
STUBS = ["query constants that must be able to coincide with data terms are written as placeholder IRIs <urn:x-sym:N> and replaced "
         "in rdflib's algebra tree by symbolic IRIs before evaluation",
         "prepareQuery (pyparsing + algebra translation) runs untraced on the concrete query text inside each path"]

V = lambda n: ["v", n]
C = lambda i: ["c", i]
P, Q = ["iri", "p"], ["iri", "q"]


def tp(s, p, o):
    return ["tp", s, p, o]


def run_untraced(fn):
    try:
        from crosshair.tracers import NoTracing, is_tracing
    except Exception:
        return fn()
    if is_tracing():
        with NoTracing():
            return fn()
    return fn()


def _subst(x, m):
    from rdflib.plugins.sparql.parserutils import CompValue
    if isinstance(x, CompValue):
        for key in list(x.keys()):
            x[key] = _subst(x[key], m)
        # translateExists stores the translated pattern as an instance attribute (n.graph = ...)
        for key, val in list(vars(x).items()):
            if key != "_OrderedDict__map":
                object.__setattr__(x, key, _subst(val, m))
        return x
    if isinstance(x, dict):
        for key in list(x.keys()):
            x[key] = _subst(x[key], m)
        return x
    if isinstance(x, list):
        return [_subst(y, m) for y in x]
    if isinstance(x, tuple):
        return tuple(_subst(y, m) for y in x)
    if isinstance(x, set):
        return set(_subst(y, m) for y in x)
    if type(x) is URIRef and x in m:
        return m[x]
    return x


def prepare(text, consts):
    from rdflib.plugins.sparql.processor import prepareQuery

    def mk():
        q = prepareQuery(text)
        m = {URIRef(R.PLACEHOLDER % i): c for i, c in enumerate(consts)}
        if m:
            _subst(q.algebra, m)
        return q

    return run_untraced(mk)


def norm(v):
    if isinstance(v, Literal) and v.datatype == XSD.boolean:
        return bool(v.value)
    return v


def make_data(desc, F, args):
    """-> (graph object, reference data, next arg index)"""
    data = {"default": [], "named": {}}
    named = any(gn != "d" for _, gn in desc["data"])
    if named or desc.get("dataset"):
        g = Dataset(default_union=False)
        for gn in desc.get("graphs", ["g1", "g2"]):
            data["named"][gn] = []
            g.graph(R.IRIS[gn])
    else:
        g = Graph()
    i = 0
    # term kind of the data: "I" symbolic IRIs; "L" symbolic integer literals in subject and object position (rdflib
    # graphs accept literal subjects), so that the falsy term (k = 0) can flow through bindings, joins and scoping code
    mk = F.lit if desc.get("kind") == "L" else F.iri
    for pn, gn in desc["data"]:
        s, o = mk(args[i]), mk(args[i + 1])
        i += 2
        lst = data["default"] if gn == "d" else data["named"][gn]
        if not tin((s, pn, o), lst):
            lst.append((s, pn, o))
        if gn == "d":
            g.add((s, R.IRIS[pn], o))
        else:
            g.add((s, R.IRIS[pn], o, R.IRIS[gn]))
    return g, data, i


def body_query(desc, F, *args):
    from rdflib.plugins.sparql.evaluate import evalQuery
    g, data, i = make_data(desc, F, args)
    consts = [F.iri(args[i + j]) for j in range(desc["nconst"])]
    ref = R.Ref(data, consts)
    exp = ref.group(desc["group"], "default")
    form = desc["form"]
    if desc.get("public"):
        # the public route: Graph.query(text) -> SPARQLProcessor.query -> Result object; what the caller can observe
        # (vars, bindings, iteration, len, bool, askAnswer, graph) is turned back into the dictionary evalQuery returns
        ro = g.query(desc["text"])
        if ro.type != {"select": "SELECT", "ask": "ASK", "construct": "CONSTRUCT"}[form]:
            return "Result.type is %r for a %s query" % (ro.type, form)
        if form == "ask":
            res = {"askAnswer": ro.askAnswer}
            if bool(ro) != bool(ro.askAnswer) or list(ro) != [ro.askAnswer]:
                return "bool() / iteration of an ASK result disagree with its askAnswer"
        elif form == "construct":
            res = {"graph": ro.graph}
            if not same_set(list(ro), list(ro.graph)):
                return "iterating a CONSTRUCT result does not give the triples of its graph"
        else:
            rows = list(ro)            # first consumer: the result's generator branch
            res = {"vars_": ro.vars, "bindings": ro.bindings}
            again = list(ro)           # second pass: served from the stored bindings
            if len(again) != len(rows):
                return "iterating a SELECT result twice gives different numbers of rows"
            seen_by_iteration = ro.bindings
            if desc.get("model_known_empty_rows"):
                # residual check for the recorded finding: iteration leaves out the solutions that bind no projected variable
                seen_by_iteration = [b for b in ro.bindings if len(b) > 0]
            if len(rows) != len(seen_by_iteration) or len(ro) != len(ro.bindings):
                return "len() / iteration of a SELECT result disagree with its bindings"
            for row, b in zip(rows, seen_by_iteration):
                for v in ro.vars:
                    a = row[v]
                    try:
                        bb = b[v]
                    except KeyError:
                        bb = None
                    if (a is None) != (bb is None) or (a is not None and not a == bb):
                        return "a result row disagrees with the binding at the same position"
    else:
        q = prepare(desc["text"], consts)
        res = evalQuery(g, q)
    if form == "ask":
        if bool(res["askAnswer"]) != (len(exp) > 0):
            return "ASK answer differs from non-emptiness of the algebra's solutions"
        return None
    if form == "construct" and desc.get("bnode_template"):
        from .c10 import FreshB, match_fresh
        want = []
        for n_sol, mu in enumerate(exp):
            for s, p, o in desc["template"]:
                sv = FreshB(n_sol, s[1]) if s[0] == "b" else ref.term(s, mu)
                ov = FreshB(n_sol, o[1]) if o[0] == "b" else ref.term(o, mu)
                if sv is None or ov is None or isinstance(sv, bool):
                    continue
                want.append((sv, R.IRIS[p[1]], ov))
        got = list(res["graph"])
        if not match_fresh(got, want):
            return "CONSTRUCT with a blank node in the template: not one fresh node per solution (%s)" % desc["name"]
        return None
    if form == "construct":
        want = []
        for mu in exp:
            for s, p, o in desc["template"]:
                t = (ref.term(s, mu), ref.term(p, mu), ref.term(o, mu))
                if None in t or isinstance(t[0], bool) or isinstance(t[1], bool):
                    continue  # unbound, or a literal in subject/predicate position: skipped
                if isinstance(t[2], bool):
                    t = (t[0], t[1], Literal(t[2]))
                if not tin(t, want):
                    want.append(t)
        got = list(res["graph"])
        if not same_set(got, want):
            return "CONSTRUCT graph differs from the template instantiated over the algebra's solutions"
        return None
    proj = desc["proj"]
    pv = R.vars_in_scope(desc["group"]) if proj == "*" else proj
    vs = [str(v) for v in res["vars_"]]
    if proj != "*" and vs != list(proj):
        return "projected variables differ"
    if proj == "*":
        # the property is about the multiset of bindings: rdflib may list extra (never bound)
        # variables for SELECT *, e.g. those that occur only inside MINUS / EXISTS
        for v in pv:
            if v not in vs:
                return "SELECT * does not list the in-scope variable ?%s" % v
        pv = pv + [v for v in vs if v not in pv]
    got = []
    for b in res["bindings"]:
        row = {}
        for v in pv:
            try:
                val = b[Variable(v)]
            except KeyError:
                val = None
            if val is not None:
                row[v] = norm(val)
        got.append(row)
    want = [{v: m[v] for v in pv if v in m} for m in exp]
    if desc.get("distinct"):
        want = R.distinct(want)
    if len(got) != len(want):
        return "number of solutions differs from the algebra (%s)" % desc["name"]
    if not R.same_solutions(got, want):
        return "solutions differ from the algebra (%s)" % desc["name"]
    return None


BODIES = {"query": body_query}

# ----------------------------------------------------------------------------- catalogue
A = [tp(V("s"), P, V("o"))]
RIGHTS = {
    "o-shared": [tp(V("o"), Q, V("z"))],
    "disjoint": [tp(V("x"), Q, V("y"))],
    "s-shared": [tp(V("s"), Q, V("z"))],
    "both": [tp(V("o"), Q, V("s"))],
}


def singles():
    """name -> (group, nconst)"""
    out = {}
    out["bgp1"] = (A, 0)
    out["bgp2"] = ([tp(V("s"), P, V("o")), tp(V("o"), Q, V("z"))], 0)
    out["bgp-const-o"] = ([tp(V("s"), P, C(0))], 1)
    out["bgp-const-s"] = ([tp(C(0), P, V("o"))], 1)
    out["bgp-samevar"] = ([tp(V("s"), P, V("s"))], 0)
    out["bgp-varpred"] = ([tp(V("s"), V("pp"), V("o"))], 0)
    out["bgp-cross"] = ([tp(V("s"), P, V("o")), tp(V("x"), Q, V("y"))], 0)
    for rn, B in RIGHTS.items():
        out["join-groups/" + rn] = ([["group", A], ["group", B]], 0)
        out["optional/" + rn] = (A + [["opt", B]], 0)
        out["union/" + rn] = ([["union", A, B]], 0)
        out["minus/" + rn] = (A + [["minus", B]], 0)
        out["exists/" + rn] = (A + [["filter", ["exists", B]]], 0)
        out["notexists/" + rn] = (A + [["filter", ["notexists", B]]], 0)
        out["subselect/" + rn] = (A + [["sub", [v for v in R.vars_in_scope(B)][:1], B, False]], 0)
    B = RIGHTS["o-shared"]
    out["optional-filter-right"] = (A + [["opt", B + [["filter", ["!=", V("z"), C(0)]]]]], 1)
    out["optional-filter-left"] = (A + [["opt", B + [["filter", ["=", V("s"), C(0)]]]]], 1)
    out["optional-filter-both"] = (A + [["opt", B + [["filter", ["!=", V("z"), V("s")]]]]], 0)
    out["optional-bound"] = (A + [["opt", B], ["filter", ["bound", V("z")[1]]]], 0)
    out["optional-notbound"] = (A + [["opt", B], ["filter", ["!", ["bound", "z"]]]], 0)
    out["filter-eq-const"] = (A + [["filter", ["=", V("o"), C(0)]]], 1)
    out["filter-ne-var"] = (A + [["filter", ["!=", V("o"), V("s")]]], 0)
    out["filter-and"] = (A + [["filter", ["&&", ["!=", V("o"), C(0)], ["=", V("s"), C(1)]]]], 2)
    out["filter-or-unbound"] = (A + [["filter", ["||", ["=", V("o"), C(0)], ["=", V("nope"), C(0)]]]], 1)
    out["filter-and-unbound"] = (A + [["filter", ["&&", ["=", V("o"), C(0)], ["=", V("nope"), C(0)]]]], 1)
    out["filter-not-unbound"] = (A + [["filter", ["!", ["=", V("nope"), C(0)]]]], 1)
    out["filter-or-bare-unbound-true"] = (A + [["filter", ["||", V("nope"), ["=", V("s"), V("s")]]]], 0)
    out["filter-and-bare-unbound-false"] = (A + [["filter", ["!", ["&&", V("nope"), ["!=", V("s"), V("s")]]]]], 0)
    out["filter-not-bound-outer-nested"] = (A + [["group", [tp(V("x"), Q, V("y")), ["filter", ["!", ["bound", "s"]]]]]], 0)
    out["join-groups-dup-right"] = ([["group", A], ["group", [["union", [tp(V("o"), Q, V("z"))], [tp(V("o"), Q, V("z"))]]]]], 0)
    out["join-groups-dup-left"] = ([["group", [["union", A, A]]], ["group", [tp(V("o"), Q, V("z"))]]], 0)
    out["minus-dup-left"] = ([["union", A, A], ["minus", [tp(V("o"), Q, V("z"))]]], 0)
    out["values-minus-bgp"] = ([["values", ["o"], [[C(0)], [C(1)]]], ["minus", A]], 2)
    out["bgp-minus-values"] = (A + [["minus", [["values", ["o"], [[C(0)]]]]]], 1)
    out["bgp-minus-values-undef"] = (A + [["minus", [["values", ["s", "o"], [[C(0), None], [None, C(1)]]]]]], 2)
    out["filter-iri-ebv"] = (A + [["filter", V("o")]], 0)
    out["filter-sameterm"] = (A + [["filter", ["sameTerm", V("s"), V("o")]]], 0)
    out["filter-first"] = ([["filter", ["=", V("o"), C(0)]]] + A, 1)
    out["filter-scope-inner"] = (A + [["group", [tp(V("x"), Q, V("y")), ["filter", ["=", V("s"), V("x")]]]]], 0)
    out["bind-var"] = (A + [["bind", V("o"), "b"]], 0)
    out["bind-if"] = (A + [["bind", ["if", ["=", V("o"), C(0)], V("s"), V("o")], "b"]], 1)
    out["bind-coalesce"] = (A + [["bind", ["coalesce", V("nope"), V("s")], "b"]], 0)
    out["bind-error"] = (A + [["bind", V("nope"), "b"]], 0)
    out["bind-bool"] = (A + [["bind", ["=", V("s"), V("o")], "b"]], 0)
    out["bind-then-filter"] = (A + [["bind", V("o"), "b"], ["filter", ["=", V("b"), C(0)]]], 1)
    out["values-1"] = (A + [["values", ["o"], [[C(0)], [C(1)]]]], 2)
    out["values-undef"] = (A + [["values", ["s", "o"], [[C(0), None], [None, C(1)]]]], 2)
    out["values-first"] = ([["values", ["o"], [[C(0)]]]] + A, 1)
    out["values-dup"] = (A + [["values", ["o"], [[C(0)], [C(0)]]]], 1)
    out["subselect-distinct"] = ([["sub", ["o"], A, True]], 0)
    out["subselect-project-join"] = ([["sub", ["o"], A, False], tp(V("o"), Q, V("z"))], 0)
    out["subselect-hidden-var"] = ([["sub", ["o"], A, False], tp(V("s"), Q, V("z"))], 0)
    out["union-same"] = ([["union", A, A]], 0)
    out["join-union-dup"] = (A + [["union", [tp(V("o"), Q, V("z"))], [tp(V("o"), Q, V("z"))]]], 0)
    out["minus-disjoint-filter"] = (A + [["minus", [tp(V("x"), Q, V("y")), ["filter", ["=", V("x"), V("s")]]]]], 0)
    out["opt-opt-skip"] = (A + [["opt", [tp(V("o"), Q, V("z")), ["opt", [tp(V("s"), Q, V("w"))]]]]], 0)
    out["opt-opt-seq"] = (A + [["opt", [tp(V("o"), Q, V("z"))]], ["opt", [tp(V("s"), Q, V("z"))]]], 0)
    out["bind-after-opt"] = (A + [["opt", [tp(V("o"), Q, V("z"))]], ["bind", ["coalesce", V("z"), V("s")], "b"]], 0)
    out["exists-filter-outer"] = (A + [["filter", ["exists", [tp(V("x"), Q, V("y")), ["filter", ["=", V("y"), V("s")]]]]]], 0)
    out["notexists-const"] = (A + [["filter", ["notexists", [tp(V("o"), Q, C(0))]]]], 1)
    out["union-opt"] = ([["union", A, [tp(V("s"), Q, V("z"))]], ["opt", [tp(V("s"), Q, V("w"))]]], 0)
    return out


def graph_queries():
    out = {}
    out["graph-var"] = ([["graph", V("g"), A]], 0)
    out["graph-const"] = ([["graph", ["iri", "g1"], A]], 0)
    out["graph-missing"] = ([["graph", ["iri", "g3"], A]], 0)
    out["graph-var-join-default"] = ([tp(V("s"), P, V("o")), ["graph", V("g"), [tp(V("o"), Q, V("z"))]]], 0)
    out["graph-var-twice"] = ([["graph", V("g"), A], ["graph", V("g"), [tp(V("o"), Q, V("z"))]]], 0)
    out["graph-opt"] = ([["graph", V("g"), A + [["opt", [tp(V("o"), Q, V("z"))]]]]], 0)
    out["graph-union-default"] = ([["union", A, [["graph", V("g"), A]]]], 0)
    out["graph-exists"] = (A + [["filter", ["exists", [["graph", V("g"), [tp(V("s"), Q, V("z"))]]]]]], 0)
    # operators inside GRAPH ?g: evaluated once per named graph, against that graph
    for nm, inner in GRAPH_INNER.items():
        out["graph-inner-" + nm] = ([["graph", V("g"), inner]], 0)
    return out


GRAPH_INNER = {
    "exists": A + [["filter", ["exists", [tp(V("s"), Q, V("z"))]]]],
    "notexists": A + [["filter", ["notexists", [tp(V("s"), Q, V("z"))]]]],
    "minus": A + [["minus", [tp(V("s"), Q, V("z"))]]],
    "union": [["union", A, [tp(V("s"), Q, V("o"))]]],
    "sub": [["sub", ["s"], A, False], tp(V("s"), Q, V("z"))],
    "bind-bound": A + [["opt", [tp(V("s"), Q, V("z"))]], ["filter", ["bound", "z"]]],
}


OPS2 = ["opt", "union", "minus", "group", "exists", "notexists", "filter", "bind", "sub"]


def wrap(op, left, right, k):
    """combine two groups with operator op (right may be ignored)"""
    if op == "opt":
        return left + [["opt", right]]
    if op == "union":
        return [["union", left, right]]
    if op == "minus":
        return left + [["minus", right]]
    if op == "group":
        return [["group", left], ["group", right]]
    if op == "exists":
        return left + [["filter", ["exists", right]]]
    if op == "notexists":
        return left + [["filter", ["notexists", right]]]
    if op == "filter":
        vs = R.vars_in_scope(left)
        return left + [["filter", ["!=", V(vs[0]), V(vs[-1])]]]
    if op == "bind":
        vs = R.vars_in_scope(left)
        return left + [["bind", V(vs[-1]), "b%d" % k]]
    if op == "sub":
        vs = R.vars_in_scope(right)
        return left + [["sub", vs[:1], right, False]]
    raise AssertionError(op)


def pairs():
    """depth-2 nestings: op2(op1(A, B), C) and op2(A, op1(B, C))"""
    out = {}
    B = [tp(V("o"), Q, V("z"))]
    Cs = {"z": [tp(V("z"), P, V("w"))], "s": [tp(V("s"), Q, V("w"))], "x": [tp(V("x"), P, V("y"))]}
    for o1, o2 in itertools.product(OPS2, repeat=2):
        for cn, Cg in Cs.items():
            inner = wrap(o1, A, B, 1)
            bad_exists = o2 in ("exists", "notexists") and any(e[0] in ("bind", "sub", "values") for e in Cg)
            if not bad_exists:
                out["L:%s(%s(A,B),C%s)" % (o2, o1, cn)] = (wrap(o2, inner, Cg, 2), 0)
            inner2 = wrap(o1, B, Cg, 1)
            if o2 in ("exists", "notexists") and o1 in ("bind", "sub"):
                continue
            out["R:%s(A,%s(B,C%s))" % (o2, o1, cn)] = (wrap(o2, A, inner2, 2), 0)
    return out


def data_shapes(group, n, graphs=False):
    if graphs:
        base = {2: [[("p", "g1"), ("p", "g2")], [("p", "g1"), ("q", "g1")], [("p", "d"), ("q", "g1")], [("p", "g1"), ("q", "g2")]],
                3: [[("p", "d"), ("p", "g1"), ("q", "g2")], [("p", "g1"), ("q", "g1"), ("p", "g2")]]}
        return base[n]
    text = R.r_group(group)
    usesq = "urn:q" in text
    if not usesq:
        return {1: [["p"]], 2: [["p", "p"], ["p", "q"]], 3: [["p", "p", "p"], ["p", "p", "q"]]}[n]
    return {1: [["p"], ["q"]], 2: [["p", "q"], ["p", "p"], ["q", "q"]], 3: [["p", "q", "q"], ["p", "p", "q"], ["p", "p", "p"]]}[n]


def obligations(tier, seed):
    rnd = random.Random(seed)
    obs = []

    def add(name, group, nconst, form, data, budget, proj="*", template=None, distinct=False, graphs=False, kind="I", bnode_template=False,
            public=False):
        dd = [(d, "d") for d in data] if not graphs else data
        text = R.render(form, group, proj, template, distinct)
        tag = "".join(p for p, _ in dd) if not graphs else ",".join("%s@%s" % x for x in dd)
        if kind != "I":
            tag += "-" + kind
        if public:
            tag += "-public"
        obs.append(dict(oid="q/%s/%s/%s" % (form, name, tag), family="query",
                        desc={"name": name, "group": group, "nconst": nconst, "form": form, "text": text, "proj": proj, "kind": kind,
                              "bnode_template": bnode_template, "template": template, "distinct": distinct, "data": [list(x) for x in dd], "dataset": graphs,
                              "public": public},
                        sig=[("x%d" % i, "i") for i in range(2 * len(dd) + nconst)], budget=budget))

    S = singles()
    for name, (group, nc) in S.items():
        for n in (2, 3):
            shapes = data_shapes(group, n)
            if tier == "quick" and n == 3:
                shapes = shapes[:1]
            for ds in shapes:
                add(name, group, nc, "select", ds, 200 if n == 2 else 600)
        if tier == "thorough":
            add(name, group, nc, "select", data_shapes(group, 3)[0] + ["q" if "urn:q" in R.r_group(group) else "p"], 1500)
        ds = data_shapes(group, 2)[0]
        add(name, group, nc, "select", ds, 300, kind="L")
        if tier == "thorough":
            add(name, group, nc, "select", data_shapes(group, 3)[0], 900, kind="L")
        add(name, group, nc, "ask", ds, 200)
        vs = R.vars_in_scope(group)
        template = [[V(vs[0]), Q, V(vs[-1])], [V(vs[-1]), P, V(vs[0])]]
        add(name, group, nc, "construct", ds, 200, template=template)
    # the public route Graph.query(text) for every single-operator template without query constants
    for name, (group, nc) in S.items():
        if nc:
            continue
        ds = data_shapes(group, 2)[0]
        add(name, group, nc, "select", ds, 300, public=True)
        if tier == "thorough" or name in ("bgp1", "union-same", "optional/o-shared"):
            vs = R.vars_in_scope(group)
            add(name, group, nc, "ask", ds, 300, public=True)
            add(name, group, nc, "construct", ds, 300, public=True, template=[[V(vs[0]), Q, V(vs[-1])], [V(vs[-1]), P, V(vs[0])]])
    # a projection that leaves some solutions without any bound variable (they are solutions all the same)
    add("optional/o-shared+proj-unbound", S["optional/o-shared"][0], 0, "select", ["p", "q"], 300, proj=["z"], public=True)
    add("optional/o-shared+proj-unbound", S["optional/o-shared"][0], 0, "select", ["p", "p"], 300, proj=["z"], public=True)
    # CONSTRUCT templates with a blank node: one fresh node per solution of the multiset (duplicates from UNION / VALUES / [] included)
    for name in ("bgp1", "union-same", "values-dup", "union/s-shared", "optional/o-shared", "subselect-project-join", "join-union-dup"):
        group, nc = S[name]
        vs = R.vars_in_scope(group)
        tmpl = [[["b", "x"], Q, V(vs[0])], [["b", "x"], P, ["b", "y"]]]
        for ds in data_shapes(group, 2)[:2]:
            obs.append(None)
            obs.pop()
            dd = [(d, "d") for d in ds]
            text = "CONSTRUCT { _:x <%s> ?%s . _:x <%s> _:y . } WHERE %s" % (R.IRIS["q"], vs[0], R.IRIS["p"], R.r_group(group))
            obs.append(dict(oid="q/construct-bnode/%s/%s" % (name, "".join(ds)), family="query",
                            desc={"name": name, "group": group, "nconst": nc, "form": "construct", "text": text, "proj": "*", "kind": "I",
                                  "bnode_template": True, "template": tmpl, "distinct": False, "data": [list(x) for x in dd], "dataset": False},
                            sig=[("x%d" % i, "i") for i in range(2 * len(dd) + nc)], budget=300))
    # explicit projection / DISTINCT
    for name in ("bgp2", "optional/o-shared", "union/o-shared"):
        group, nc = S[name]
        vs = R.vars_in_scope(group)
        add(name + "+proj", group, nc, "select", data_shapes(group, 2)[0], 200, proj=[vs[-1], vs[0]])
        add(name + "+distinct", group, nc, "select", data_shapes(group, 2)[0], 200, proj=[vs[0]], distinct=True)
    for name, (group, nc) in graph_queries().items():
        for ds in data_shapes(group, 2, graphs=True)[: 2 if tier == "quick" else 4]:
            add(name, group, nc, "select", ds, 300, graphs=True)
        if tier == "quick" and name.startswith("graph-inner-"):
            # the same solution in two named graphs, the inner pattern matching in one of them only
            add(name, group, nc, "select", data_shapes(group, 3, graphs=True)[1], 600, graphs=True)
        if tier == "thorough":
            for ds in data_shapes(group, 3, graphs=True):
                add(name, group, nc, "select", ds, 900, graphs=True)
    PP = pairs()
    for name in sorted(PP):
        group, nc = PP[name]
        shapes = data_shapes(group, 2)
        for ds in (shapes[:1] if tier == "quick" else shapes):
            add(name, group, nc, "select", ds, 300)
        add(name, group, nc, "select", shapes[0], 300, kind="L")
        if tier == "thorough":
            add(name, group, nc, "select", data_shapes(group, 3)[0], 900)
    return obs


def bounds(tier):
    return {"query": "%d single-operator templates (BGP, join of groups, OPTIONAL +/- FILTER, UNION, MINUS, FILTER =,!=,bound,!,&&,||,"
                     "sameTerm, EXISTS/NOT EXISTS, BIND, VALUES incl. UNDEF, sub-SELECT, DISTINCT, projection) x 4 variable-sharing patterns, "
                     "%d GRAPH templates over a Dataset, all %d depth-2 nestings; data: single operators n=2 and n=3 symbolic triples%s, "
                     "nestings n=2%s, per predicate/graph shape, data terms symbolic IRIs and (second variant) symbolic integer literals incl. the falsy one; SELECT for all, ASK and CONSTRUCT for every single-operator template"
                     % (len(singles()), len(graph_queries()), len(pairs()),
                        "" if tier == "quick" else " (and n=4)", "" if tier == "quick" else " and n=3"),
            "public": "every single-operator template without query constants also as text through Graph.query() -> SPARQLProcessor -> Result, observed through the Result object (vars, bindings, iteration twice, len, bool, askAnswer, graph), n=2",
            "outside": "arithmetic/string functions, literals other than booleans produced by expressions, property paths (C11), "
                       "aggregates and modifiers (C08), SERVICE, FROM/FROM NAMED, blank nodes in patterns, n>3"}


def _all_vars(x, acc):
    if isinstance(x, list):
        if len(x) == 2 and x[0] == "v" and isinstance(x[1], str):
            acc.add(x[1])
            return
        if x and x[0] == "bound" and len(x) == 2 and isinstance(x[1], str):
            acc.add(x[1])
            return
        if x and x[0] == "bind":
            acc.add(x[2])
        if x and x[0] == "values":
            acc.update(x[1])
        if x and x[0] == "sub" and x[1] != "*":
            acc.update(x[1])
        for y in x:
            _all_vars(y, acc)


def scope_issues(group):
    """Syntactic classes of queries in which rdflib's top-down evaluation (bindings pushed into
    sub-patterns) is recorded as deviating from the bottom-up algebra (known findings):
    ("pushed context" = a group that rdflib evaluates with bindings of preceding / enclosing patterns pushed
     in: the right side of OPTIONAL, a nested group / union branch / sub-SELECT / GRAPH that is not the first
     element of its group, an EXISTS pattern)
      subselect-hidden-var   a sub-SELECT in a pushed context mentions, without projecting it, a variable that
                             also occurs outside it (the outer binding captures the hidden variable)
      nested-minus           a MINUS inside a pushed context (both sides then carry the pushed bindings, which
                             changes compatibility and domain-disjointness)
      nested-outer-filter    a FILTER inside a pushed context with (NOT) EXISTS whose pattern mentions, or bound() of, a
                             variable that is not in scope in that group but occurs outside it
    """
    issues = set()
    every = set()
    _all_vars(group, every)

    def outside(inner):
        """variables occurring in the query outside the sub-tree `inner`"""
        acc = set()

        def walk(x):
            if x is inner:
                return
            if isinstance(x, list):
                if len(x) == 2 and x[0] == "v" and isinstance(x[1], str):
                    acc.add(x[1])
                    return
                for y in x:
                    walk(y)

        walk(group)
        return acc

    def has_exists_var(e, names):
        """does expression e contain an EXISTS/NOT EXISTS whose pattern mentions one of names, or bound() of one of names"""
        if isinstance(e, list):
            if e and e[0] == "bound" and len(e) == 2 and e[1] in names:
                return True
            if e and e[0] in ("exists", "notexists"):
                acc = set()
                _all_vars(e[1], acc)
                return bool(acc & names)
            return any(has_exists_var(y, names) for y in e)
        return False

    def visit(g, pushed):
        """pushed: rdflib evaluates this group with bindings of enclosing/preceding patterns pushed in"""
        for idx, el in enumerate(g):
            k = el[0]
            before = pushed or idx > 0
            if k == "minus":
                if pushed:
                    issues.add("nested-minus")
                visit(el[1], pushed)
            elif k == "opt":
                visit(el[1], before)
            elif k == "group":
                visit(el[1], before)
            elif k == "union":
                visit(el[1], before)
                visit(el[2], before)
            elif k == "graph":
                visit(el[2], before)
            elif k == "sub":
                inner = set()
                _all_vars(el[2], inner)
                proj = set(R.vars_in_scope(el[2])) if el[1] == "*" else set(el[1])
                hidden = inner - proj
                if before and (hidden & outside(el)):
                    issues.add("subselect-hidden-var")
                visit(el[2], before)
            elif k == "filter":
                if pushed:
                    scope = set(R.vars_in_scope(g))
                    outer = outside(g) - scope
                    if has_exists_var(el[1], outer):
                        issues.add("nested-outer-filter")
                _visit_expr(el[1])

    def _visit_expr(e):
        if isinstance(e, list):
            if e and e[0] in ("exists", "notexists"):
                visit(e[1], True)
            else:
                for y in e:
                    _visit_expr(y)

    visit(group, False)
    return issues


def finding_key(ob, cex, reason):
    if ob["desc"].get("public") and reason.startswith("len() / iteration of a SELECT result"):
        if ob["desc"].get("model_known_empty_rows"):
            return "query|residual|%s" % reason
        return "query|result-iteration-skips-all-unbound-rows"
    iss = scope_issues(ob["desc"]["group"])
    if iss:
        return "query|scope:" + "+".join(sorted(iss))
    import re
    return "query|%s" % re.sub(r" \(.*\)$", "", reason) + "|" + ob["desc"]["name"]


def residual(ob):
    """iteration of a SELECT Result skips solutions that bind no projected variable (recorded finding): the same obligation
    against that reading, so that any other disagreement between iteration, len() and bindings is still reported"""
    d = ob["desc"]
    if scope_issues(d["group"]):
        return None  # keyed by its scope class
    if d.get("public") and d["form"] == "select" and not d.get("model_known_empty_rows"):
        o2 = dict(ob)
        o2["desc"] = dict(d, model_known_empty_rows=True)
        return o2
    return None


def untraced():
    # the `public` obligations call Graph.query(text): rdflib's parser and translator run on concrete text, outside the tracer
    from rdflib.plugins.sparql.algebra import translateQuery
    from rdflib.plugins.sparql.parser import parseQuery
    from ..driver import default_untraced
    return default_untraced() + [parseQuery, translateQuery]
