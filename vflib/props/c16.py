"""C16 — SPARQL results survive their exchange formats (engine K; partial: the object / infoset mappings of SPARQL-JSON and SPARQL-XML).

The four codecs end in C code (json / expat / csv) or in a pyparsing grammar over term contents, and rdflib terms cannot carry
symbolic contents.  What can be decided is the *mapping* between result tables and the two structured formats:
 * SPARQL-JSON: termToJSON, _bindingToJSON, JSONResultSerializer.serialize up to the json.dumps call, and JSONResult / _get_bindings /
   parseJsonTerm from the json.loads result on, with json.dumps / json.loads replaced by a structural copy that accepts exactly what
   JSON can represent;
 * SPARQL-XML: XMLResultSerializer / SPARQLXMLWriter with xml.sax's XMLGenerator replaced by a recorder of the element structure, and
   XMLResult / parseTerm reading that recorded tree through the ElementTree interface they use (text None for an element without
   character data, attribute values as strings);
in both cases with the term classes of the module replaced by recorders whose lexical form, language tag and datatype are symbolic
strings.  The text level of either format (escaping, encodings, XMLGenerator, expat, json), CSV and TSV are NOT claimed.
"""
PROPERTY = "C16"
FUNCTIONS = [
    "rdflib.plugins.sparql.results.jsonresults.termToJSON", "rdflib.plugins.sparql.results.jsonresults.parseJsonTerm",
    "rdflib.plugins.sparql.results.jsonresults.JSONResultSerializer.serialize (up to json.dumps) / _bindingToJSON",
    "rdflib.plugins.sparql.results.jsonresults.JSONResult.__init__ / _get_bindings (from json.loads on)",
    "rdflib.query.Result.__init__ / bindings setter",
    "rdflib.plugins.sparql.results.xmlresults.XMLResultSerializer.serialize", "rdflib.plugins.sparql.results.xmlresults.SPARQLXMLWriter (all methods)",
    "rdflib.plugins.sparql.results.xmlresults.XMLResult.__init__ (from the parsed tree on)", "rdflib.plugins.sparql.results.xmlresults.parseTerm",
]
STUBS = ["the names URIRef, Literal, BNode of the jsonresults module are bound to recorder classes for the duration of a path (a real "
         "term would realise its symbolic content in str.__new__); Variable stays the real class (variable names are concrete)",
         "json.dumps / json.loads of the module are replaced by a structural copy: dict (keys through str()), list, str, bool, None; "
         "anything else raises TypeError as json.dumps would",
         "the Result handed to the serializer is a record with type / vars / bindings / askAnswer",
         "xmlresults.XMLGenerator is a recorder of startElementNS / characters / endElementNS; xmlresults.xml_etree.parse hands the recorded "
         "tree to XMLResult through a minimal element class (tag, text, get, iteration, indexing, find, findall)"]
ASSUMPTIONS = ["the orjson branch is not exercised (orjson is not installed in this environment)"]


class RecTerm:
    kind = "?"

    def __init__(self, text, datatype=None, lang=None):
        self.text = text
        self.datatype = datatype
        self.language = lang

    def __str__(self):
        return self.text

    # rdflib terms are str subclasses: the str interface is delegated to the (symbolic) text
    def __len__(self):
        return len(self.text)

    def __getitem__(self, i):
        return self.text[i]

    def __iter__(self):
        return iter(self.text)

    def __contains__(self, x):
        return x in self.text

    def __add__(self, other):
        return self.text + (other.text if isinstance(other, RecTerm) else other)

    def __radd__(self, other):
        return other + self.text

    def __getattr__(self, name):
        if name.startswith("__") or name in ("text", "datatype", "language"):
            raise AttributeError(name)
        return getattr(self.text, name)

    def __format__(self, spec):
        # f"{term}" on a str-based term is its text (object.__format__ would realise the symbolic text)
        return self.text

    def __eq__(self, other):
        # equality of str-based terms: same kind and same text (a real URIRef constant such as XSD.string counts as an IRI)
        if other is self:
            return True
        if isinstance(other, RecTerm):
            if other.kind != self.kind:
                return False
            if self.kind == "literal":
                return self.same(other)
            if self.text == other.text:
                return True
            return False
        if isinstance(other, str) and self.kind == "uri" and type(other).__name__ == "URIRef":
            if self.text == str(other):
                return True
            return False
        return False

    def __ne__(self, other):
        return not self.__eq__(other)

    def __hash__(self):
        return 0

    truthy = None   # a literal's truthiness is that of its Python value (Literal(0), Literal(False) are falsy): set by shape

    def __bool__(self):
        # rdflib terms are str subclasses: a term with empty text is falsy
        if self.truthy is not None:
            return self.truthy
        if len(self.text) > 0:
            return True
        return False

    def same(self, o):
        if not isinstance(o, RecTerm) or o.kind != self.kind:
            return False
        if not (str(o.text) == str(self.text)):
            return False
        if self.kind != "literal":
            return True
        a, b = self.datatype, o.datatype
        if (a is None) != (b is None) or (a is not None and not (str(a) == str(b))):
            return False
        a, b = self.language, o.language
        if (a is None) != (b is None) or (a is not None and not (str(a) == str(b))):
            return False
        return True


class RecURI(RecTerm):
    kind = "uri"


class RecBNode(RecTerm):
    kind = "bnode"


class RecLit(RecTerm):
    kind = "literal"


class _JsonShim:
    """structural stand-in for the json module: what survives is what JSON can represent"""

    def __init__(self):
        self.doc = None

    def _copy(self, x):
        if x is None or x is True or x is False:
            return x
        if isinstance(x, dict):
            return {str(k): self._copy(v) for k, v in x.items()}
        if isinstance(x, (list, tuple)):
            return [self._copy(v) for v in x]
        if isinstance(x, (RecTerm,)):
            raise TypeError("Object of type %s is not JSON serializable" % type(x).__name__)
        if isinstance(x, str) or type(x).__name__ in ("LazyIntSymbolicStr", "SeqBasedSymbolicStr"):
            return x
        if isinstance(x, int):
            return x
        raise TypeError("Object of type %s is not JSON serializable" % type(x).__name__)

    def dumps(self, obj, **kw):
        self.doc = self._copy(obj)
        return ""

    def loads(self, text, **kw):
        return self.doc


class _Stream:
    def write(self, x):
        pass


class _Res:
    pass


def _with_module(fn):
    import rdflib.plugins.sparql.results.jsonresults as jr
    saved = (jr.URIRef, jr.Literal, jr.BNode, jr.json, jr._HAS_ORJSON)
    shim = _JsonShim()
    jr.URIRef, jr.Literal, jr.BNode, jr.json, jr._HAS_ORJSON = RecURI, RecLit, RecBNode, shim, False
    try:
        return fn(jr, shim)
    finally:
        jr.URIRef, jr.Literal, jr.BNode, jr.json, jr._HAS_ORJSON = saved


def _mk(kind, a, b):
    if kind == "uri":
        return RecURI(a)
    if kind == "bnode":
        return RecBNode(a)
    if kind == "plain":
        return RecLit(a)
    if kind == "lang":
        return RecLit(a, lang=b)
    if kind == "typed":
        return RecLit(a, datatype=RecURI(b))
    if kind == "falsy":
        # a typed literal with a non-empty lexical form whose Python value is falsy ("0"^^xsd:integer, "false"^^xsd:boolean)
        t = RecLit("0" + a, datatype=RecURI("d" + b))
        t.truthy = False
        return t
    if kind == "typed-xsd-string":
        return RecLit(a, datatype=RecURI("http://www.w3.org/2001/XMLSchema#string"))
    raise AssertionError(kind)


KEYS = ("type", "value", "datatype", "xml:lang")


def k_json_term(desc, F, a, b):
    """one term: termToJSON gives an object of the SPARQL-JSON vocabulary and parseJsonTerm reads the same term back"""
    t = _mk(desc["kind"], a, b)

    def run(jr, shim):
        d = jr.termToJSON(None, t)
        if not isinstance(d, dict):
            return "termToJSON does not give an object for a %s" % desc["kind"]
        for k in d:
            if k not in KEYS:
                return "termToJSON writes a member outside the SPARQL-JSON vocabulary"
        if "type" not in d or "value" not in d:
            return "termToJSON omits type or value"
        want_type = {"uri": "uri", "bnode": "bnode"}.get(desc["kind"], "literal")
        if not (d["type"] == want_type):
            return "termToJSON writes the wrong type for a %s" % desc["kind"]
        back = jr.parseJsonTerm(shim._copy(d))
        if not t.same(back):
            return "parseJsonTerm(termToJSON(t)) is a different term (%s)" % desc["kind"]
        return None

    return _with_module(run)


TABLES = {
    # rows as lists of cells (one per variable a, b): None = unbound, else a term kind
    "one-row": [["uri", "plain"]],
    "unbound-cells": [["uri", None], [None, None]],
    "lang-typed": [["lang", "typed"]],
    "no-rows": [],
    "three-rows": [["bnode", "plain"], [None, "uri"], ["bnode", None]],
    "all-unbound-first": [[None, None], ["plain", "plain"]],
    "falsy-literal": [["falsy", "plain"]],
    "xsd-string-typed": [["typed-xsd-string", "plain"]],
    "same-form-other-language": [["lang", "lang"], ["plain", None]],
}


def k_json_table(desc, F, *args):
    """a SELECT result table through JSONResultSerializer.serialize -> (structural JSON copy) -> JSONResult: same variables in the same
    order, the same sequence of rows, each variable bound to an equal term or unbound, all-unbound rows kept"""
    from rdflib.term import Variable
    names = ["a", "b"]
    rows = []
    i = 0
    for cells in TABLES[desc["table"]]:
        row = {}
        for n, kind in zip(names, cells):
            if kind is not None:
                row[Variable(n)] = _mk(kind, args[i], args[i + 1])
                i += 2
        rows.append(row)
    res = _Res()
    res.type = "SELECT"
    res.vars = [Variable(n) for n in names]
    res.bindings = rows
    res.askAnswer = None

    def run(jr, shim):
        try:
            jr.JSONResultSerializer(res).serialize(_Stream())
        except TypeError:
            return "the serializer hands json a value that JSON cannot represent"
        doc = shim.doc
        if not isinstance(doc, dict) or "head" not in doc or "results" not in doc:
            return "the document lacks head or results"
        if "vars" not in doc["head"] or "bindings" not in doc["results"]:
            return "the document lacks head.vars or results.bindings"
        back = jr.JSONResult(shim.loads(""))
        if back.type != "SELECT":
            return "a SELECT result is read back as %s" % back.type
        if [str(v) for v in back.vars] != names:
            return "variables differ after the round trip"
        got = list(back.bindings)
        if len(got) != len(rows):
            return "number of rows differs after the round trip"
        for r0, r1 in zip(rows, got):
            for n in names:
                v = Variable(n)
                t0 = r0.get(v)
                t1 = r1.get(v)
                if (t0 is None) != (t1 is None):
                    return "a cell changes between bound and unbound"
                if t0 is not None and not t0.same(t1):
                    return "a cell holds a different term after the round trip"
            for k in r1:
                if str(k) not in names:
                    return "a row binds a variable that is not in the head"
        return None

    return _with_module(run)


def k_json_ask(desc, F, x):
    res = _Res()
    res.type = "ASK"
    res.askAnswer = bool(x != 0)
    res.vars = None
    res.bindings = []

    def run(jr, shim):
        jr.JSONResultSerializer(res).serialize(_Stream())
        doc = shim.doc
        if not isinstance(doc, dict) or "boolean" not in doc or "head" not in doc:
            return "the ASK document lacks head or boolean"
        if not (doc["boolean"] is True or doc["boolean"] is False):
            return "boolean is not a JSON boolean"
        back = jr.JSONResult(shim.loads(""))
        if back.type != "ASK" or bool(back.askAnswer) != bool(res.askAnswer):
            return "the ASK answer changes in the round trip"
        return None

    return _with_module(run)


# ---- SPARQL XML: the mapping between result tables and the XML infoset --------------------------------------------------
class RecGen:
    """stands for xml.sax.saxutils.XMLGenerator: records the element structure the writer produces"""

    def __init__(self, out=None, encoding="utf-8", *a, **kw):
        self.root = None
        self.stack = []

    def startDocument(self):
        pass

    def endDocument(self):
        pass

    def startPrefixMapping(self, prefix, uri):
        pass

    def endPrefixMapping(self, prefix):
        pass

    def startElementNS(self, name, qname, attrs):
        ns, local = name
        el = El("{%s}%s" % (ns, local) if ns else local)
        for (ans, alocal) in attrs.keys():
            v = attrs[(ans, alocal)]
            el.attrib["{%s}%s" % (ans, alocal) if ans else alocal] = v if isinstance(v, str) else str(v)
        if self.stack:
            self.stack[len(self.stack) - 1].children.append(el)
        else:
            self.root = el
        self.stack.append(el)

    def endElementNS(self, name, qname):
        ns, local = name
        el = self.stack.pop()
        if el.tag != ("{%s}%s" % (ns, local) if ns else local):
            raise ValueError("XML writer closes %s inside %s" % (local, el.tag))

    def characters(self, content):
        if not content:
            return   # xml.sax.saxutils.XMLGenerator.characters: `if content:` - falsy content writes nothing
        el = self.stack[len(self.stack) - 1]
        el.chunks.append(content if isinstance(content, str) or not isinstance(content, RecTerm) else str(content))

    def ignorableWhitespace(self, content):
        pass


class El:
    """the part of the ElementTree element / tree interface that XMLResult and parseTerm use"""

    def __init__(self, tag):
        self.tag = tag
        self.attrib = {}
        self.children = []
        self.chunks = []

    @property
    def text(self):
        # an XML parser reports an element without character data as text None
        t = ""
        for c in self.chunks:
            t = t + c
        if len(t) == 0:
            return None
        return t

    def get(self, key, default=None):
        return self.attrib.get(key, default)

    def __iter__(self):
        return iter(list(self.children))

    def __len__(self):
        return len(self.children)

    def __getitem__(self, i):
        return self.children[i]

    def find(self, path):
        r = self.findall(path)
        return r[0] if r else None

    def findall(self, path):
        steps = []
        cur_step = ""
        depth = 0
        for ch in path:           # "/" separates steps except inside a {namespace}
            if ch == "{":
                depth += 1
            elif ch == "}":
                depth -= 1
            if ch == "/" and depth == 0:
                steps.append(cur_step)
                cur_step = ""
            else:
                cur_step += ch
        steps.append(cur_step)
        cur = [self]
        for step in steps:
            if step in (".", ""):
                continue
            cur = [c for e in cur for c in e.children if c.tag == step]
        return cur

    def getroot(self):
        return self


class _EtreeShim:
    """stands for the xml.etree.ElementTree module inside xmlresults: parse() hands out the recorded tree"""

    def __init__(self, tree):
        self._tree = tree

    def XMLParser(self, *a, **kw):
        return None

    def parse(self, source, parser=None):
        return self._tree


def _with_xml_module(fn):
    import rdflib.plugins.sparql.results.xmlresults as xr
    saved = (xr.URIRef, xr.Literal, xr.BNode, xr.XMLGenerator, xr.xml_etree, xr.FOUND_LXML)
    xr.URIRef, xr.Literal, xr.BNode, xr.XMLGenerator, xr.FOUND_LXML = RecURI, RecLit, RecBNode, RecGen, False
    try:
        return fn(xr)
    finally:
        xr.URIRef, xr.Literal, xr.BNode, xr.XMLGenerator, xr.xml_etree, xr.FOUND_LXML = saved


RES_NS = "{http://www.w3.org/2005/sparql-results#}"


def _xml_roundtrip(xr, res):
    """serialize through the real XMLResultSerializer / SPARQLXMLWriter into a recorded tree, read it with the real XMLResult"""
    ser = xr.XMLResultSerializer(res)
    ser.serialize(_Stream())
    # the writer object is local to serialize(): the generator instance is found through the class-level registry below
    tree = RecGen.last.root
    if tree is None or tree.tag != RES_NS + "sparql":
        return None, "the document element is not sparql:sparql"
    if RecGen.last.stack:
        return None, "the writer leaves elements open"
    xr.xml_etree = _EtreeShim(tree)
    return xr.XMLResult(_Stream()), None


_orig_recgen_init = RecGen.__init__


def _recgen_init(self, *a, **kw):
    _orig_recgen_init(self, *a, **kw)
    RecGen.last = self


RecGen.__init__ = _recgen_init
RecGen.last = None


def k_xml_table(desc, F, *args):
    """a SELECT result table through XMLResultSerializer / SPARQLXMLWriter -> (recorded element tree) -> XMLResult / parseTerm"""
    from rdflib.term import Variable
    names = ["a", "b"]
    rows = []
    i = 0
    for cells in TABLES[desc["table"]]:
        row = {}
        for n, kind in zip(names, cells):
            if kind is not None:
                row[Variable(n)] = _mk(kind, args[i], args[i + 1])
                i += 2
        rows.append(row)
    # SPARQL XML cannot express an IRI or blank node label without characters, nor an empty language tag / datatype IRI (no RDF
    # term has those): the property speaks about terms
    for row in rows:
        for t in row.values():
            if t.kind != "literal" and len(t.text) == 0:
                return None
            if t.kind == "literal" and t.language is not None and len(t.language) == 0:
                return None
            if t.kind == "literal" and t.datatype is not None and len(str(t.datatype)) == 0:
                return None
    res = _Res()
    res.type = "SELECT"
    res.vars = [Variable(n) for n in names]
    res.bindings = rows
    res.askAnswer = None

    def run(xr):
        back, err = _xml_roundtrip(xr, res)
        if err:
            return err
        if back.type != "SELECT":
            return "a SELECT result is read back as %s" % back.type
        if [str(v) for v in back.vars] != names:
            return "variables differ after the round trip"
        got = list(back.bindings)
        if len(got) != len(rows):
            return "number of rows differs after the round trip"
        for r0, r1 in zip(rows, got):
            for n in names:
                v = Variable(n)
                t0 = r0.get(v)
                t1 = r1.get(v)
                if (t0 is None) != (t1 is None):
                    return "a cell changes between bound and unbound"
                if t0 is not None and not t0.same(t1):
                    return "a cell holds a different term after the round trip"
        return None

    return _with_xml_module(run)


def k_xml_ask(desc, F, x):
    res = _Res()
    res.type = "ASK"
    res.askAnswer = bool(x != 0)
    res.vars = None
    res.bindings = []

    def run(xr):
        back, err = _xml_roundtrip(xr, res)
        if err:
            return err
        if back.type != "ASK" or bool(back.askAnswer) != bool(res.askAnswer):
            return "the ASK answer changes in the round trip"
        return None

    return _with_xml_module(run)


BODIES = {"k-json-term": k_json_term, "k-json-table": k_json_table, "k-json-ask": k_json_ask, "k-xml-table": k_xml_table, "k-xml-ask": k_xml_ask}


def obligations(tier, seed):
    obs = []
    n = 2 if tier == "quick" else 3
    for kind in ("uri", "bnode", "plain", "lang", "typed"):
        obs.append(dict(oid="K/json-term/%s" % kind, family="k-json-term", desc={"kind": kind}, sig=[("a", "s"), ("b", "s")],
                        pre=["len(a) <= %d" % n, "len(b) <= %d" % n], budget=200))
    for name, rows in TABLES.items():
        cells = sum(1 for r in rows for c in r if c is not None)
        sig = [("s%d" % i, "s") for i in range(2 * cells)] or [("s0", "s")]
        obs.append(dict(oid="K/json-table/%s" % name, family="k-json-table", desc={"table": name}, sig=sig,
                        pre=["len(%s) <= 1" % nm for nm, _ in sig], budget=300))
    obs.append(dict(oid="K/json-ask", family="k-json-ask", desc={}, sig=[("x", "i")], budget=60))
    for name, rows in TABLES.items():
        cells = sum(1 for r in rows for c in r if c is not None)
        sig = [("s%d" % i, "s") for i in range(2 * cells)] or [("s0", "s")]
        obs.append(dict(oid="K/xml-table/%s" % name, family="k-xml-table", desc={"table": name}, sig=sig,
                        pre=["len(%s) <= 1" % nm for nm, _ in sig], budget=300))
    obs.append(dict(oid="K/xml-ask", family="k-xml-ask", desc={}, sig=[("x", "i")], budget=60))
    return obs


def bounds(tier):
    return {"k-json-term": "one term of each kind (IRI, blank node, plain / language-tagged / typed literal) whose lexical form and "
                           "language tag or datatype IRI are symbolic strings of length <= %d (the code does not scan them: length is "
                           "immaterial beyond empty / non-empty)" % (2 if tier == "quick" else 3),
            "k-json-table": "9 table shapes over two variables (bound/unbound cells, all-unbound rows, no rows, repeated blank node, a literal whose Python value is falsy, an explicitly xsd:string-typed literal, one lexical form under two language tags), cell "
                            "contents symbolic strings of length <= 1",
            "k-json-ask": "both boolean results",
            "k-xml-table": "the same 9 table shapes through the SPARQL-XML writer and reader at the level of the element structure; premise: IRIs, "
                           "blank node labels, language tags and datatype IRIs are non-empty (no RDF term has an empty one; SPARQL-XML cannot "
                           "tell an absent from an empty attribute)",
            "k-xml-ask": "both boolean results",
            "outside": "the text level of JSON and XML (json / orjson, XMLGenerator escaping, expat / lxml), CSV, TSV, Result.serialize/parse plugin dispatch"}


def finding_key(ob, cex, reason):
    return "%s|%s" % (ob["family"], reason)
