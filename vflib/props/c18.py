"""C18 — rollback restores, commit keeps (AuditableStore over Memory), engine S.

Shape: initial placement (which graph each initial triple sits in), the sequence of
operation kinds with their target graph, commit or rollback.  Content: all terms.
"""
import itertools
import random

from rdflib import BNode, ConjunctiveGraph, Dataset, Graph, URIRef
from rdflib.plugins.stores.auditable import AuditableStore
from rdflib.plugins.stores.memory import Memory

from ..model import SHAPES8, match, pat_of, same_set, set_add, teq, tin

PROPERTY = "C18"
FUNCTIONS = [
    "rdflib.plugins.stores.auditable.AuditableStore.add", "rdflib.plugins.stores.auditable.AuditableStore.remove",
    "rdflib.plugins.stores.auditable.AuditableStore.triples", "rdflib.plugins.stores.auditable.AuditableStore.commit",
    "rdflib.plugins.stores.auditable.AuditableStore.rollback", "rdflib.plugins.stores.auditable.AuditableStore.__len__",
    "rdflib.plugins.stores.memory.Memory.add", "rdflib.plugins.stores.memory.Memory.remove",
    "rdflib.plugins.stores.memory.Memory.triples", "rdflib.graph.Graph.add", "rdflib.graph.Graph.remove",
    "rdflib.graph.ConjunctiveGraph.remove", "rdflib.graph.ConjunctiveGraph.quads",
]
G = {"g1": URIRef("urn:g1"), "g2": URIRef("urn:g2")}


def _t(F, args, i):
    return (F.node(args[3 * i]), F.node(args[3 * i + 1]), F.node(args[3 * i + 2]))


def _snapshot(base):
    out = []
    for name, gid in G.items():
        for (s, p, o), _ in base.triples((None, None, None), Graph(base, gid)):
            out.append((s, p, o, name))
    return out


def _same_quads(got, exp):
    if len(got) != len(exp):
        return False
    for q in exp:
        n = 0
        for r in got:
            if r[3] == q[3] and teq(r[:3], q[:3]):
                n += 1
        if n != 1:
            return False
    return True


def _qin(q, lst):
    for r in lst:
        if r[3] == q[3] and teq(r[:3], q[:3]):
            return True
    return False


def _apply(aud, model, op, t):
    """op = (kind, graph) ; kind in add / rmBBB ; graph in g1 / g2 / any"""
    kind, gn = op
    if kind == "add":
        Graph(aud, G[gn]).add(t)
        q = (t[0], t[1], t[2], gn)
        return model if _qin(q, model) else model + [q]
    pat = pat_of(kind[2:], t)
    if gn == "any":
        ConjunctiveGraph(aud).remove(pat)
        return [q for q in model if not match(pat, q[:3])]
    Graph(aud, G[gn]).remove(pat)
    return [q for q in model if not (q[3] == gn and match(pat, q[:3]))]


def body_txn(desc, F, *args):
    base = Memory()
    i = 0
    init = []
    for gn in desc["init"]:
        t = _t(F, args, i)
        i += 1
        base.add(t, Graph(base, G[gn]))
        q = (t[0], t[1], t[2], gn)
        if not _qin(q, init):
            init.append(q)
    aud = AuditableStore(base)
    model = list(init)
    for op in desc["ops"]:
        model = _apply(aud, model, tuple(op), _t(F, args, i))
        i += 1
    if not _same_quads(_snapshot(base), model):
        return "store content differs from the model before %s" % desc["end"]
    if desc.get("mid"):
        # a transaction boundary in the middle: what follows starts a new transaction on the content reached
        if desc["mid"] == "commit":
            aud.commit()
            init = list(model)
        else:
            aud.rollback()
            model = list(init)
        if not _same_quads(_snapshot(base), model):
            return "%s in the middle left the wrong content" % desc["mid"]
        for op in desc["ops2"]:
            model = _apply(aud, model, tuple(op), _t(F, args, i))
            i += 1
        if not _same_quads(_snapshot(base), model):
            return "store content differs from the model in the second transaction"
    if desc["end"] == "rollback":
        aud.rollback()
        if not _same_quads(_snapshot(base), init):
            return "rollback did not restore the initial content"
        aud.rollback()
        if not _same_quads(_snapshot(base), init):
            return "second rollback changed the store"
    else:
        aud.commit()
        if not _same_quads(_snapshot(base), model):
            return "commit changed the content"
        aud.rollback()
        if not _same_quads(_snapshot(base), model):
            return "rollback after commit changed the store"
    return None


def body_two(desc, F, *args):
    """two wrappers over one store, transactions on pairwise different triples"""
    base = Memory()
    i = 0
    init = []
    for gn in desc["init"]:
        t = _t(F, args, i)
        i += 1
        base.add(t, Graph(base, G[gn]))
        q = (t[0], t[1], t[2], gn)
        if not _qin(q, init):
            init.append(q)
    auds = {"A": AuditableStore(base), "B": AuditableStore(base)}
    trip = {"A": [], "B": []}
    sched = []
    for who, kind, gn in desc["sched"]:
        t = _t(F, args, i)
        i += 1
        trip[who].append(t)
        sched.append((who, (kind, gn), t))
    for ta in trip["A"]:
        for tb in trip["B"]:
            if teq(ta, tb):
                return None  # outside the property's premise (disjoint triples)
    model_b = list(init)
    for who, op, t in sched:
        _apply(auds[who], [], op, t)
        if who == "B":
            model_b = _apply_model(model_b, op, t)
    auds["A"].rollback()
    if not _same_quads(_snapshot(base), model_b):
        return "rolling back wrapper A disturbed wrapper B's changes (or left A's)"
    auds["B"].rollback()
    if not _same_quads(_snapshot(base), init):
        return "rolling back both wrappers did not restore the initial content"
    return None


def _apply_model(model, op, t):
    kind, gn = op
    q = (t[0], t[1], t[2], gn)
    if kind == "add":
        return model if _qin(q, model) else model + [q]
    return [r for r in model if not (r[3] == gn and teq(r[:3], t))]


BODIES = {"txn": body_txn, "two": body_two}


def _sig(n):
    return [("x%d" % i, "i") for i in range(n)]


def _opname(op):
    return "%s@%s" % (op[0], op[1])


def obligations(tier, seed):
    rnd = random.Random(seed)
    obs = []
    core_ops = [("add", "g1"), ("rm000", "g1"), ("add", "g2"), ("rm000", "g2"), ("rm011", "g1"), ("rm111", "g1"),
                ("rm000", "any"), ("rm110", "any"), ("rm111", "any")]
    all_ops = [("add", "g1"), ("add", "g2")] + [("rm" + b, g) for b in SHAPES8 for g in ("g1", "g2", "any")]
    inits = [[], ["g1"], ["g1", "g2"], ["g1", "g1"]]

    def txn(init, ops, end, budget):
        obs.append(dict(oid="txn/%s/%s/%s" % ("+".join(init) or "empty", "-".join(_opname(o) for o in ops), end),
                        family="txn", desc={"init": init, "ops": [list(o) for o in ops], "end": end},
                        sig=_sig(3 * (len(init) + len(ops))), budget=budget))

    def cost(init, ops):
        return len(init) + len(ops)

    k1 = [(init, (o,)) for init in inits for o in all_ops]
    k2 = [(init, ops) for init in inits for ops in itertools.product(all_ops, repeat=2)]
    k2core = [(init, ops) for init in inits for ops in itertools.product(core_ops, repeat=2)]
    k3 = [(init, ops) for init in inits for ops in itertools.product(core_ops[:7], repeat=3)]
    k4 = [(init, ops) for init in inits[:3] for ops in itertools.product(core_ops[:5], repeat=4)]
    if tier == "quick":
        # the number of aliasing patterns grows like the Bell numbers in the number of symbolic
        # triples: quick keeps init+ops <= 3 (plus a few of size 4), thorough goes to 4 (5 sampled)
        seqs = k1 + [x for x in k2core if cost(*x) <= 3] + rnd.sample([x for x in k2 if cost(*x) <= 3], 40)
        seqs += rnd.sample([x for x in k3 if cost(*x) <= 3], 20)
        seqs += rnd.sample([x for x in k2core if cost(*x) == 4 and x[0] == ["g1", "g1"]], 6)
    else:
        seqs = k1 + [x for x in k2core if cost(*x) <= 4] + rnd.sample([x for x in k2 if cost(*x) <= 3], 300)
        seqs += [x for x in k3 if cost(*x) <= 3] + rnd.sample([x for x in k3 if cost(*x) == 4], 120)
        seqs += rnd.sample([x for x in k4 if cost(*x) == 4], 60) + rnd.sample([x for x in k3 if cost(*x) == 5], 8)
    # undo-log cancellation with other entries in between (size 4, always included): a triple present at the start is
    # removed, something else changes the store, the triple is re-added (and the mirror image for an absent triple)
    between = [("add", "g1"), ("add", "g2"), ("rm000", "g1"), ("rm011", "g1"), ("rm111", "any")]
    for mid in between:
        seqs.append((["g1"], (("rm000", "g1"), mid, ("add", "g1"))))
        seqs.append((["g1"], (("add", "g1"), mid, ("rm000", "g1"))))
    seqs.append((["g1", "g1"], (("rm110", "g1"), ("add", "g1"))))
    seen = set()
    for init, ops in seqs:
        for end in ("rollback", "commit"):
            if end == "commit" and (len(ops) > 2 or (tier == "quick" and len(ops) > 1 and rnd.random() < 0.6)):
                continue
            key = (tuple(init), ops, end)
            if key in seen:
                continue
            seen.add(key)
            c = cost(init, ops)
            txn(list(init), ops, end, {1: 60, 2: 90, 3: 200, 4: 600 if tier == "quick" else 900}.get(c, 1500))
    # a boundary in the middle: ops, commit|rollback, ops, rollback (the second transaction must be undone to the boundary,
    # and the first entry of the new undo log is the first change after the boundary)
    mids = []
    for init in (["g1"], []):
        for o1 in (("rm000", "g1"), ("add", "g1")):
            for o2s in ((("rm000", "g1"), ("add", "g1")), (("add", "g1"), ("rm000", "g1")), (("rm111", "any"),), (("add", "g2"), ("rm000", "any"))):
                for mid in ("commit", "rollback"):
                    mids.append((init, (o1,), mid, o2s))
    if tier == "quick":
        mids = [m for m in mids if len(m[0]) + 1 + len(m[3]) <= 3] + rnd.sample([m for m in mids if len(m[0]) + 1 + len(m[3]) == 4], 4)
    for init, ops, mid, ops2 in mids:
        c = len(init) + len(ops) + len(ops2)
        obs.append(dict(oid="txn-mid/%s/%s/%s/%s" % ("+".join(init) or "empty", "-".join(_opname(o) for o in ops), mid, "-".join(_opname(o) for o in ops2)),
                        family="txn", desc={"init": list(init), "ops": [list(o) for o in ops], "mid": mid, "ops2": [list(o) for o in ops2], "end": "rollback"},
                        sig=_sig(3 * c), budget={2: 90, 3: 200}.get(c, 600 if tier == "quick" else 900)))
    # two wrappers
    base_ops = [("add", "g1"), ("rm000", "g1")]
    two = []
    for init in ([], ["g1"], ["g1", "g1"]):
        for na, nb in ((1, 1), (2, 1), (1, 2), (2, 2)):
            for ka in itertools.product(base_ops, repeat=na):
                for kb in itertools.product(base_ops, repeat=nb):
                    for order in sorted(set(itertools.permutations("A" * na + "B" * nb))):
                        ia, ib = iter(ka), iter(kb)
                        sched = [(w,) + (next(ia) if w == "A" else next(ib)) for w in order]
                        two.append((init, sched))
    if tier == "quick":
        two = [x for x in two if cost(*x) <= 3 and len(x[1]) == 2] + rnd.sample([x for x in two if cost(*x) == 3 and len(x[1]) == 3], 12)
    else:
        two = [x for x in two if cost(*x) <= 3] + rnd.sample([x for x in two if cost(*x) == 4], 80) \
            + rnd.sample([x for x in two if cost(*x) == 5], 10)
    for init, sched in two:
        c = cost(init, sched)
        obs.append(dict(oid="two/%s/%s" % ("+".join(init) or "empty", "-".join("%s:%s" % (w, k) for w, k, g in sched)),
                        family="two", desc={"init": init, "sched": [list(s) for s in sched]},
                        sig=_sig(3 * (len(init) + len(sched))), budget={2: 90, 3: 200, 4: 900}.get(c, 1500)))
    return obs


def bounds(tier):
    return {
        "txn-between": "always: remove(t) / add(t) separated by one other store-changing operation, t present or absent at the start (size 4)",
        "txn": "initial content 0-2 symbolic triples in g1/g2; k<=2 ops over add/remove(8 pattern shapes) x {g1,g2,no graph}"
               " (quick: core subset for k=2) plus seeded k=3 sample (%s); rollback and commit endings"
               % ("24" if tier == "quick" else "250, and 60 of k=4"),
        "txn-mid": "a boundary in the middle: 1 op, commit or rollback, 1-2 ops, rollback (restores the content at the boundary); "
                   "initial content 0-1 triples",
        "two": "two AuditableStore wrappers on one Memory, <=2 concrete-triple ops each, every interleaving (seeded sample beyond 2 ops)",
        "outside": "quoted statements, threads (rollbackLock), stores other than Memory, transactions longer than 4 operations",
    }


def finding_key(ob, cex, reason):
    d = ob["desc"]
    if ob["family"] == "txn":
        return "txn|%s|%s" % ("-".join(o[0][:2] for o in d["ops"]) + ":" + d["end"], reason)
    return "two|%s" % reason
