"""C02 — Dataset keeps named graphs isolated; union view is the union (engine S).

Shape: default_union flag, sequence of operation kinds with their (concrete) graph names (A2).
Content: every term symbolic.
"""
import itertools
import random

from rdflib import BNode, Dataset, Graph, URIRef
from rdflib.graph import DATASET_DEFAULT_GRAPH_ID

from ..model import dedup, match, pat_of, same_set, set_add, teq, tin

PROPERTY = "C02"
FUNCTIONS = [
    "rdflib.graph.ConjunctiveGraph._spoc", "rdflib.graph.ConjunctiveGraph._graph", "rdflib.graph.ConjunctiveGraph.add",
    "rdflib.graph.ConjunctiveGraph.remove", "rdflib.graph.ConjunctiveGraph.triples", "rdflib.graph.ConjunctiveGraph.quads",
    "rdflib.graph.ConjunctiveGraph.__contains__", "rdflib.graph.ConjunctiveGraph.contexts", "rdflib.graph.ConjunctiveGraph.get_context",
    "rdflib.graph.Dataset.graph", "rdflib.graph.Dataset.remove_graph", "rdflib.graph.Dataset.graphs", "rdflib.graph.Dataset.quads",
    "rdflib.graph.Dataset.__iter__", "rdflib.plugins.stores.memory.Memory.add", "rdflib.plugins.stores.memory.Memory.remove",
    "rdflib.plugins.stores.memory.Memory.triples", "rdflib.plugins.stores.memory.Memory.add_graph",
    "rdflib.plugins.stores.memory.Memory.remove_graph", "rdflib.plugins.stores.memory.Memory.contexts",
    "rdflib.plugins.stores.memory.Memory.__len__",
]
ASSUMPTIONS = ["A2 graph names are the concrete terms <urn:g1>, _:b1 and the dataset's default graph id; "
               "an unknown name <urn:unknown> is used for the restricted-query observation"]
NAMES = {"d": DATASET_DEFAULT_GRAPH_ID, "g1": URIRef("urn:g1"), "b1": BNode("b1")}
UNKNOWN = URIRef("urn:unknown")
QBITS = ["000", "001", "010", "011", "100", "101", "110", "111"]


def _t(F, args, i):
    return (F.node(args[3 * i]), F.node(args[3 * i + 1]), F.node(args[3 * i + 2]))


def _quad(t, gn):
    if gn == "d":
        return t
    return (t[0], t[1], t[2], NAMES[gn])


def body_ds(desc, F, *args):
    ds = Dataset(default_union=desc["union"])
    store = ds.store
    views = {gn: Graph(store, NAMES[gn]) for gn in NAMES} if desc.get("early_views") else None
    model = {"d": [], "g1": [], "b1": []}
    exists = {"d": "yes", "g1": "no", "b1": "no"}  # yes / no / either
    i = 0
    for op in desc["ops"]:
        kind = op[0]
        if kind in ("addq", "addv", "rmq", "rmall"):
            t = _t(F, args, i)
            i += 1
        if kind == "addq":
            gn = op[1]
            ds.add(_quad(t, gn))
            model[gn] = set_add(model[gn], t)
            exists[gn] = "yes"
        elif kind == "addv":
            gn = op[1]
            Graph(store, NAMES[gn]).add(t)
            model[gn] = set_add(model[gn], t)
            exists[gn] = "yes"
        elif kind == "rmq":
            bits, gn = op[1], op[2]
            pat = pat_of(bits, t)
            if gn == "d":
                ds.remove((pat[0], pat[1], pat[2], NAMES["d"]))
            else:
                ds.remove((pat[0], pat[1], pat[2], NAMES[gn]))
            model[gn] = [u for u in model[gn] if not match(pat, u)]
        elif kind == "rmall":
            pat = pat_of(op[1], t)
            ds.remove(pat)
            for gn in model:
                model[gn] = [u for u in model[gn] if not match(pat, u)]
        elif kind == "graph":
            gn = op[1]
            ds.graph(NAMES[gn])
            exists[gn] = "yes"
        elif kind == "rmgraph":
            gn = op[1]
            if gn == "none":
                ds.remove_graph(None)  # allowed by the signature; names no graph of the dataset: nothing may change
            else:
                ds.remove_graph(NAMES[gn])
                model[gn] = []
                exists[gn] = "yes" if gn == "d" else "no"
        else:
            raise AssertionError(kind)
    q = _t(F, args, i)
    return _observe(ds, store, views, model, exists, q, desc)


def _observe(ds, store, views, model, exists, q, desc):
    union = desc["union"]
    # 1. quads(): the default graph may be reported as None or by its identifier
    def norm(c):
        return NAMES["d"] if c is None else c

    got = list(ds.quads())
    exp = []
    for gn, ts in model.items():
        for t in ts:
            exp.append((t[0], t[1], t[2], NAMES[gn]))
    if len(got) != len(exp):
        return "quads() has the wrong number of quads"
    for e in exp:
        n = 0
        for r in got:
            if norm(r[3]) == e[3] and teq(r[:3], e[:3]):
                n += 1
        if n != 1:
            return "quads() differs from the model"
    # 1b. quads restricted to one graph.  rdflib also reports the *other* graphs a matching triple is
    # asserted in (its own suite asserts this: test_aggregate_graphs.py::test_aggregate2), and the
    # property does not fix the meaning of a quad pattern, so only this is demanded: every reported
    # quad is a true quad of the dataset, and the quads reported for the named graph are exactly
    # that graph's content (in particular nothing for an empty or unknown graph).
    for gn in list(NAMES) + ["unknown"]:
        ident = NAMES.get(gn, UNKNOWN)
        if gn == "d" and union:
            continue
        content = model.get(gn, [])
        mine = []
        for r in ds.quads((None, None, None, ident)):
            if norm(r[3]) == ident:
                mine.append(r[:3])
            else:
                ok = False
                for g2 in NAMES:
                    if NAMES[g2] == norm(r[3]) and tin(r[:3], model[g2]):
                        ok = True
                if not ok:
                    return "quads() restricted to graph %s yields a quad that is not in the dataset" % gn
                if not tin(r[:3], content):
                    return "quads() restricted to graph %s yields a triple that is not in that graph" % gn
        if not same_set(mine, content):
            return "quads() restricted to graph %s differs from that graph" % gn
    # 2. graphs()
    ids = [g.identifier for g in ds.graphs()]
    for gn, ident in NAMES.items():
        c = ids.count(ident)
        must = exists[gn] == "yes" or len(model[gn]) > 0
        if must and c != 1:
            return "graphs() does not list graph %s exactly once" % gn
        if not must and c != 0:
            return "graphs() lists the removed/never created graph %s" % gn
    for ident in ids:
        if ident not in NAMES.values():
            return "graphs() lists a foreign graph"
    # 3. per-graph views (obtained before the history and now)
    for gn in NAMES:
        vs = [Graph(store, NAMES[gn])] + ([views[gn]] if views else [])
        for v in vs:
            for bits in desc.get("qbits", QBITS):
                pat = pat_of(bits, q)
                if not same_set(list(v.triples(pat)), [t for t in model[gn] if match(pat, t)]):
                    return "view of graph %s disagrees with the model under pattern %s" % (gn, bits)
            if len(v) != len(model[gn]):
                return "len(view of %s) differs" % gn
    # 4. quad membership, graph given as Graph and as identifier; 5. restricted triples()
    for gn in list(NAMES) + ["unknown"]:
        ident = NAMES.get(gn, UNKNOWN)
        content = model.get(gn, [])
        inq = tin(q, content)
        if gn == "d" and union:
            # documented: with default_union the default graph *is* the merged view
            inq = tin(q, model["d"]) or tin(q, model["g1"]) or tin(q, model["b1"])
        if ((q[0], q[1], q[2], ident) in ds) != inq:
            return "quad membership (identifier) wrong for graph %s" % gn
        if ((q[0], q[1], q[2], Graph(store, ident)) in ds) != inq:
            return "quad membership (Graph) wrong for graph %s" % gn
        for bits in desc.get("qbits", QBITS):
            pat = pat_of(bits, q)
            exp = [t for t in content if match(pat, t)]
            if gn == "d" and union:
                exp = dedup([t for g2 in model for t in model[g2] if match(pat, t)])
            if not same_set(list(ds.triples(pat, context=Graph(store, ident))), exp):
                return "triples(%s, context=%s graph%s) does not return that graph's triples" % (
                    bits, gn, "" if content else " [empty]")
            if not same_set(list(ds.triples((pat[0], pat[1], pat[2], ident))), exp):
                return "triples(quad pattern, graph %s%s) does not return that graph's triples" % (
                    gn, "" if content else " [empty]")
    # 6. un-restricted view: union or default graph
    for bits in desc.get("qbits", QBITS):
        pat = pat_of(bits, q)
        if union:
            exp = dedup([t for gn in model for t in model[gn] if match(pat, t)])
        else:
            exp = [t for t in model["d"] if match(pat, t)]
        if not same_set(list(ds.triples(pat)), exp):
            return "unrestricted triples(%s) is not the %s" % (bits, "union of all graphs" if union else "default graph")
    if (q in ds) != (tin(q, model["d"]) or (union and (tin(q, model["g1"]) or tin(q, model["b1"])))):
        return "triple membership in the dataset is wrong"
    return None


BODIES = {"ds": body_ds}


def _sig(n):
    return [("x%d" % i, "i") for i in range(n)]


def _name(op):
    return ".".join(op)


def _nsym(ops):
    return sum(1 for o in ops if o[0] in ("addq", "addv", "rmq", "rmall"))


def all_kinds(bits):
    ks = [("addq", g) for g in NAMES] + [("addv", g) for g in NAMES]
    ks += [("rmq", b, g) for b in bits for g in NAMES] + [("rmall", b) for b in bits]
    ks += [("graph", g) for g in ("g1", "b1")] + [("rmgraph", g) for g in NAMES] + [("rmgraph", "none")]
    return ks


def obligations(tier, seed):
    rnd = random.Random(seed)
    obs = []
    kinds = all_kinds(["000", "011", "111"])
    adders = [k for k in kinds if k[0] in ("addq", "addv", "graph")]
    seqs = [(k,) for k in kinds]
    k2 = [(a, b) for a in adders for b in kinds]
    k3 = [(a, b, c) for a in adders for b in adders for c in kinds if c[0] not in ("addq", "addv", "graph")]
    if tier == "quick":
        seqs += rnd.sample(k2, 60) + rnd.sample(k3, 16)
    else:
        seqs += k2 + rnd.sample(k3, 200)
    for ops in seqs:
        for union in (False, True):
            if tier == "quick" and len(ops) >= 2 and rnd.random() < 0.5:
                union_sel = rnd.choice((False, True))
                if union != union_sel:
                    continue
            early = len(ops) >= 2 and rnd.random() < 0.3
            obs.append(dict(oid="ds/%s/%s%s" % ("union" if union else "plain", "-".join(_name(o) for o in ops), "/early" if early else ""),
                            family="ds",
                            desc={"union": union, "ops": [list(o) for o in ops], "early_views": early,
                                  "qbits": QBITS if len(ops) < 3 else ["000", "010", "101", "111"]},
                            sig=_sig(3 * (_nsym(ops) + 1)), budget=200 if len(ops) < 3 else 500))
    return obs


def bounds(tier):
    return {"ds": "Dataset over Memory, default_union on/off; graph names default/<urn:g1>/_:b1 (+ an unknown name in reads); "
                  "every single op (24 kinds), k=2 starting with an add/graph (%s), k=3 seeded sample (%s); probe under all 8 pattern shapes (4 for k=3)"
                  % ("60 sampled" if tier == "quick" else "all 184", "16" if tier == "quick" else "200"),
            "outside": "ConjunctiveGraph with a custom default identifier, quoted graphs, stores other than Memory, k>3"}


def finding_key(ob, cex, reason):
    return "ds|%s" % reason
