"""C06 — quad syntaxes round-trip a Dataset (engine K; partial: the HexTuples mapping only).

Five of the six quad syntaxes are written and read through text scanners (regex / expat / pyparsing) over text built from term
contents, which cannot be symbolic.  HexTuples is different: one statement is one JSON array of six strings, and the code that
decides *which graph a statement lands in* and *what kind of term a string denotes* (serializers/hext.py: __init__, serialize,
_hex_line, _iri_or_bn, _context_str; parsers/hext.py: parse, _parse_hextuple) is plain Python over those strings.  It is run here
for real, with the term classes of both modules replaced by recorders whose contents are symbolic strings, the graph classes by
recording stand-ins, and json.dumps / json.loads by a structural copy of the six-element array.  N-Quads, TriG, TriX, JSON-LD,
RDF Patch and the text level of HexTuples are NOT claimed.
"""
from .c16 import RecBNode, RecLit, RecTerm, RecURI

PROPERTY = "C06"
FUNCTIONS = [
    "rdflib.plugins.serializers.hext.HextuplesSerializer.__new__ / __init__ / serialize / _hex_line / _iri_or_bn / _context_str",
    "rdflib.plugins.parsers.hext.HextuplesParser.parse / _parse_hextuple",
    "rdflib.serializer.Serializer.__init__",
    "rdflib.plugins.parsers.trix.TriXHandler (startElementNS / endElementNS / characters / get_bnode / reset)",
]
STUBS = ["the names URIRef, BNode, Literal, IdentifiedNode of both hext modules are bound to recorder classes (symbolic text; a blank node's "
         "n3() is '_:' + text), Graph / Dataset / ConjunctiveGraph to recording stand-ins (contexts(), default_context, get_context(), add(), "
         "iteration, identifier), json to a structural copy of the six-element array (a line is an object with len(), isspace(), encode())",
         "the input source is a record whose character stream is the list of lines the serializer wrote"]
ASSUMPTIONS = ["the orjson branches are not exercised (orjson is not installed in this environment)",
               "IRIs (subjects, predicates, objects, graph names, datatypes) begin with a letter, language tags and blank node labels are "
               "non-empty (first character concrete, rest symbolic): HexTuples distinguishes a blank node from an IRI by a leading '_' and "
               "an absent field by the empty string"]

DEFAULT_ID = "urn:x-rdflib:default"


def _n3(self):
    return "_:" + self.text


RecBNode.n3 = _n3


class HBNode(RecBNode):
    """BNode(value=...) as the HexTuples parser calls it"""

    fresh = 0

    def __init__(self, value=None, *a, **kw):
        if value is None:
            # BNode() without a value: a fresh node
            HBNode.fresh += 1
            value = "\x00fresh-node-%d" % HBNode.fresh
        RecBNode.__init__(self, value)


class _Line:
    """what json.dumps(line_list) + '\\n' stands for: the array itself"""

    def __init__(self, arr):
        self.arr = arr

    def __add__(self, other):
        return self

    def encode(self, *a):
        return self

    def __len__(self):
        return 1

    def isspace(self):
        return False


class _Json:
    def dumps(self, obj, **kw):
        out = []
        for x in obj:
            if isinstance(x, RecTerm):
                # json.dumps would write a str-based term as its text
                out.append(str(x))
            elif x is None or isinstance(x, str) or type(x).__name__ in ("LazyIntSymbolicStr", "SeqBasedSymbolicStr"):
                out.append(x)
            else:
                raise TypeError("Object of type %s is not JSON serializable" % type(x).__name__)
        return _Line(out)

    def loads(self, line, **kw):
        return list(line.arr)


def _same_id(a, b):
    ta = a.text if isinstance(a, RecTerm) else str(a)
    tb = b.text if isinstance(b, RecTerm) else str(b)
    ka = a.kind if isinstance(a, RecTerm) else "uri"
    kb = b.kind if isinstance(b, RecTerm) else "uri"
    if ka != kb:
        return False
    if ta == tb:
        return True
    return False


class StubStore:
    context_aware = True
    formula_aware = False

    def __init__(self):
        self.default = StubCtx(self, RecURI(DEFAULT_ID))
        self.named = []      # StubCtx in creation order


class StubCtx:
    """stands for Graph"""

    def __init__(self, store, identifier=None):
        self.store = store
        self.identifier = identifier
        self.items = []

    def add(self, t):
        for u in self.items:
            if u[0].same(t[0]) and u[1].same(t[1]) and u[2].same(t[2]):
                return self
        self.items.append(t)
        return self

    def __iter__(self):
        return iter(list(self.items))

    def __len__(self):
        return len(self.items)


class StubDS:
    """stands for Dataset / ConjunctiveGraph: a view on a StubStore"""
    formula_aware = False
    context_aware = True

    def __init__(self, store=None, default_union=False, **kw):
        self.store = store if store is not None else StubStore()
        self.default_union = default_union
        self.identifier = self.store.default.identifier

    @property
    def default_context(self):
        return self.store.default

    @default_context.setter
    def default_context(self, v):
        self.store.default = v

    default_graph = default_context

    def get_context(self, ident):
        if _same_id(ident, self.store.default.identifier):
            return self.store.default
        for c in self.store.named:
            if _same_id(c.identifier, ident):
                return c
        c = StubCtx(self.store, ident)
        self.store.named.append(c)
        return c

    graph = get_context

    def contexts(self, triple=None):
        # like Dataset.contexts(): the named graphs and the default graph
        for c in list(self.store.named):
            yield c
        yield self.store.default

    graphs = contexts

    def remove_graph(self, g):
        self.store.named = [c for c in self.store.named if c is not g]
        return self


class _Source:
    def __init__(self, lines):
        self.lines = lines

    def getCharacterStream(self):
        return list(self.lines)

    def getByteStream(self):
        raise AttributeError("no byte stream")


class _Out:
    def __init__(self):
        self.lines = []

    def write(self, x):
        self.lines.append(x)


def _patched(fn):
    import rdflib.plugins.parsers.hext as hp
    import rdflib.plugins.serializers.hext as hs
    js = _Json()
    saved_s = (hs.URIRef, hs.BNode, hs.Literal, hs.IdentifiedNode, hs.Graph, hs.Dataset, hs.ConjunctiveGraph, hs.json, hs._HAS_ORJSON)
    saved_p = (hp.URIRef, hp.BNode, hp.Literal, hp.Graph, hp.Dataset, hp.ConjunctiveGraph, hp.json, hp._HAS_ORJSON)

    class StubCG(StubDS):
        pass

    hs.URIRef, hs.BNode, hs.Literal, hs.IdentifiedNode = RecURI, HBNode, RecLit, RecTerm
    hs.Graph, hs.Dataset, hs.ConjunctiveGraph, hs.json, hs._HAS_ORJSON = StubCtx, StubDS, StubCG, js, False
    hp.URIRef, hp.BNode, hp.Literal = RecURI, HBNode, RecLit
    hp.Graph, hp.Dataset, hp.ConjunctiveGraph, hp.json, hp._HAS_ORJSON = StubCtx, StubDS, StubCG, js, False
    try:
        return fn(hs, hp)
    finally:
        (hs.URIRef, hs.BNode, hs.Literal, hs.IdentifiedNode, hs.Graph, hs.Dataset, hs.ConjunctiveGraph, hs.json, hs._HAS_ORJSON) = saved_s
        (hp.URIRef, hp.BNode, hp.Literal, hp.Graph, hp.Dataset, hp.ConjunctiveGraph, hp.json, hp._HAS_ORJSON) = saved_p


def _mk_term(kind, a, b):
    """contents with a concrete first character and a symbolic rest: an IRI begins with a letter, a language tag and a blank node
    label are non-empty (HexTuples tells a blank node from an IRI by a leading '_' and an absent field by the empty string)"""
    if kind == "uri":
        return RecURI("u" + a)
    if kind == "bnode":
        return HBNode("n" + a)
    if kind == "plain":
        return RecLit(a)
    if kind == "lang":
        return RecLit(a, lang="e" + b)
    if kind == "typed":
        return RecLit(a, datatype=RecURI("d" + b))
    raise AssertionError(kind)


def _same_obj(t0, t1):
    """RDF 1.1: a plain literal and the same lexical form typed xsd:string are one term (the only identification allowed)"""
    XSD_STRING = "http://www.w3.org/2001/XMLSchema#string"
    if t0.kind == "literal" and isinstance(t1, RecTerm) and t1.kind == "literal":
        if t0.datatype is None and t0.language is None and t1.language is None and t1.datatype is not None:
            if str(t1.datatype) == XSD_STRING:
                return str(t0.text) == str(t1.text)
    return t0.same(t1)


def k_hext(desc, F, *args):
    """a dataset of 1-2 quads through the real HexTuples serializer and parser: every statement comes back in exactly the graph it was in"""
    src = StubStore()
    ds = StubDS(store=src)
    quads = []
    i = 0
    for skind, okind, gkind in desc["quads"]:
        s = _mk_term(skind, args[i], "")
        o = _mk_term(okind, args[i + 1], args[i + 2])
        p = RecURI("urn:p")
        if gkind == "default":
            g = None
        else:
            g = _mk_term(gkind, args[i + 3], "")
        i += 4
        ctx = src.default if g is None else ds.get_context(g)
        ctx.add((s, p, o))
        quads.append((ctx, (s, p, o)))

    if desc.get("stage") == "mk":
        return None

    def run(hs, hp):
        out = _Out()
        if desc.get("stage") == "patched":
            return None
        ser = hs.HextuplesSerializer(ds)
        if desc.get("stage") == "init":
            return None
        if desc.get("stage") == "line":
            ser._hex_line(quads[0][1], "")
            return None
        ser.serialize(out)
        if desc.get("stage") == "ser":
            return None
        dst = StubStore()
        sink = StubDS(store=dst)
        hp.HextuplesParser().parse(_Source(out.lines), sink)
        # every original statement is in the graph of the same name, and nowhere else
        for ctx, (s, p, o) in quads:
            home = dst.default if ctx is src.default else None
            if home is None:
                for c in dst.named:
                    if _same_id(c.identifier, ctx.identifier):
                        home = c
            if home is None:
                return "a named graph is missing after the round trip"
            found = False
            for t in home.items:
                if s.same(t[0]) and p.same(t[1]) and _same_obj(o, t[2]):
                    found = True
            if not found:
                return "a statement is not in its graph after the round trip"
        n0 = len(src.default.items) + sum(len(c.items) for c in src.named)
        n1 = len(dst.default.items) + sum(len(c.items) for c in dst.named)
        if n0 != n1:
            return "the number of quads changes in the round trip"
        return None

    return _patched(run)


# ---- TriX reader: the SAX handler driven directly with the events of a TriX document ---------------------------------------------
class _ListMap:
    """label -> node map with linear search (a real dict would hash, i.e. realise, the symbolic label)"""

    def __init__(self):
        self.items = []

    def __contains__(self, k):
        for a, _ in self.items:
            if a == k:
                return True
        return False

    def __getitem__(self, k):
        for a, b in self.items:
            if a == k:
                return b
        raise KeyError(k)

    def __setitem__(self, k, v):
        self.items.append((k, v))


class _Loc:
    def getSystemId(self):
        return "urn:doc"

    def getLineNumber(self):
        return 1

    def getColumnNumber(self):
        return 1


class TrixGraph:
    """stands for rdflib.graph.Graph inside parsers/trix.py: Graph(store=..., identifier=...) is a view on the store's graph of that
    name; without an identifier a new graph with a fresh name"""
    fresh = 0

    def __init__(self, store=None, identifier=None, **kw):
        self.store = store
        if identifier is None:
            TrixGraph.fresh += 1
            identifier = HBNode("\x00fresh%d" % TrixGraph.fresh)
        self.identifier = identifier

    def add(self, t):
        s, p, o = t
        self.store.adds.append((self.identifier, (s, p, o)))
        return self


class _TrixStore:
    def __init__(self):
        self.adds = []


def k_trix(desc, F, *args):
    """the events of a TriX document with 1-2 graphs (name element <uri>, <id> or none; one triple each) through the real TriXHandler:
    every triple is added to the graph its <graph> element names; an unnamed graph is a graph of its own"""
    import rdflib.plugins.parsers.trix as tx
    from xml.sax.xmlreader import AttributesNSImpl
    NS = str(tx.TRIXNS)
    XML = str(tx.XMLNS)
    saved = (tx.URIRef, tx.BNode, tx.Literal, tx.Graph)
    tx.URIRef, tx.BNode, tx.Literal, tx.Graph = RecURI, HBNode, RecLit, TrixGraph
    try:
        store = _TrixStore()
        h = tx.TriXHandler(store)
        h.setDocumentLocator(_Loc())
        h.bnode = _ListMap()
        none = AttributesNSImpl({}, {})

        def el(name, text=None, attrs=none):
            h.startElementNS((NS, name), name, attrs)
            if text is not None:
                h.characters(text)
            h.endElementNS((NS, name), name)

        want = []
        i = 0
        h.startDocument()
        h.startElementNS((NS, "TriX"), "TriX", none)
        for gi, (gkind, okind) in enumerate(desc["graphs"]):
            h.startElementNS((NS, "graph"), "graph", none)
            gtext = "u" + args[i] if gkind == "uri" else "n" + args[i]
            stext, otext, aux = "u" + args[i + 1], args[i + 2], args[i + 3]
            # IRIs and blank node labels contain no white space (the reader strips the text of <uri> and <id>): visible ASCII here
            for part in (args[i], args[i + 1]) + ((otext,) if okind in ("uri", "id") else ()):
                for c in part:
                    if not ("!" <= c <= "~"):
                        return None
            i += 4
            if gkind == "uri":
                el("uri", gtext)
                gname = RecURI(gtext)
            elif gkind == "id":
                el("id", gtext)
                gname = HBNode(gtext)
            else:
                gname = None
            h.startElementNS((NS, "triple"), "triple", none)
            el("uri", stext)
            el("uri", "urn:p")
            if okind == "uri":
                el("uri", "u" + otext)
                o = RecURI("u" + otext)
            elif okind == "id":
                el("id", "n" + otext)
                o = HBNode("n" + otext)
            elif okind == "plain":
                el("plainLiteral", otext)
                o = RecLit(otext)
            elif okind == "lang":
                el("plainLiteral", otext, AttributesNSImpl({(XML, "lang"): "e" + aux}, {(XML, "lang"): "xml:lang"}))
                o = RecLit(otext, lang="e" + aux)
            else:
                el("typedLiteral", otext, AttributesNSImpl({(None, "datatype"): "d" + aux}, {(None, "datatype"): "datatype"}))
                o = RecLit(otext, datatype=RecURI("d" + aux))
            h.endElementNS((NS, "triple"), "triple")
            h.endElementNS((NS, "graph"), "graph")
            want.append((gi, gname, (RecURI(stext), RecURI("urn:p"), o)))
        h.endElementNS((NS, "TriX"), "TriX")
        h.endDocument()
        got = store.adds
        if len(got) != len(want):
            return "the TriX reader adds %d statements for %d triple elements" % (len(got), len(want))
        anon = []
        bmap = []   # document label -> node the reader made of it: any consistent one-to-one renaming is fine

        def bnode_ok(label_term, node):
            if not (isinstance(node, RecTerm) and node.kind == "bnode"):
                return False
            for lab, nd in bmap:
                same_label = _same_id(lab, label_term)
                same_node = _same_id(nd, node)
                if same_label != same_node:
                    return False
            bmap.append((label_term, node))
            return True
        for (gi, gname, (s, p, o)), (ident, t) in zip(want, got):
            if not (s.same(t[0]) and p.same(t[1])):
                return "the TriX reader changes a subject or predicate"
            to = t[2]
            if o.kind == "literal":
                if not (isinstance(to, RecTerm) and to.kind == "literal" and str(to.text) == str(o.text)):
                    return "the TriX reader changes a literal's lexical form"
                if (o.language is None) != (to.language is None) or (o.language is not None and not (str(o.language) == str(to.language))):
                    return "the TriX reader changes a literal's language tag"
                if (o.datatype is None) != (to.datatype is None) or (o.datatype is not None and not (str(o.datatype) == str(to.datatype))):
                    return "the TriX reader changes a literal's datatype"
            elif o.kind == "bnode":
                if not bnode_ok(o, to):
                    return "the TriX reader does not map blank node labels one-to-one"
            elif not o.same(to):
                return "the TriX reader changes an object"
            if gname is None:
                # a graph of its own: not one of the named graphs of this document, not another unnamed graph
                for (gj, gn2, _) in want:
                    if gn2 is not None and gn2.kind == "uri" and _same_id(ident, gn2):
                        return "the triple of an unnamed TriX graph lands in a named graph"
                for lab, nd in bmap:
                    if _same_id(nd, ident):
                        return "the triple of an unnamed TriX graph lands in a named graph"
                for a in anon:
                    if _same_id(a, ident):
                        return "two unnamed TriX graphs are merged"
                anon.append(ident)
            elif gname.kind == "bnode":
                if not bnode_ok(gname, ident):
                    return "a TriX triple lands in another graph than the one its <graph> element names"
            elif not _same_id(ident, gname):
                return "a TriX triple lands in another graph than the one its <graph> element names"
        return None
    finally:
        tx.URIRef, tx.BNode, tx.Literal, tx.Graph = saved


BODIES = {"k-hext": k_hext, "k-trix": k_trix}

SHAPES = {
    "uri-uri-default": [("uri", "uri", "default")],
    "uri-uri-named": [("uri", "uri", "uri")],
    "uri-uri-bnodegraph": [("uri", "uri", "bnode")],
    "bnode-bnode-named": [("bnode", "bnode", "uri")],
    "plain-default": [("uri", "plain", "default")],
    "plain-named": [("uri", "plain", "uri")],
    "lang-named": [("uri", "lang", "uri")],
    "typed-bnodegraph": [("bnode", "typed", "bnode")],
    "two-graphs-same-triple": [("uri", "uri", "uri"), ("uri", "uri", "uri")],
    "default-and-named": [("uri", "plain", "default"), ("uri", "plain", "uri")],
    "bnode-shared-across-graphs": [("bnode", "uri", "uri"), ("bnode", "uri", "bnode")],
}


def obligations(tier, seed):
    obs = []
    for name, quads in SHAPES.items():
        k = len(quads)
        sig = [("s%d" % i, "s") for i in range(4 * k)]
        pre = []
        for qi, (skind, okind, gkind) in enumerate(quads):
            for j, kd in enumerate((skind, okind, "aux", gkind)):
                # blank node labels get one more symbolic character than the rest (a label may contain '_' and ':')
                m = (3 if kd == "bnode" else 2) if tier == "quick" else (4 if kd == "bnode" else 3)
                if k > 1:
                    m = min(m, 1 if tier == "quick" else 2)
                pre.append("len(s%d) <= %d" % (4 * qi + j, m))
        obs.append(dict(oid="K/hext/%s" % name, family="k-hext", desc={"quads": [list(q) for q in quads]}, sig=sig, pre=pre,
                        budget=300 if tier == "quick" else 1500))
    # TriX reader: 1-2 <graph> elements by shape (name element uri / id / none; object kind), contents symbolic
    trix = [[("uri", "uri")], [("id", "plain")], [("none", "lang")], [("uri", "typed")], [("uri", "id"), ("uri", "id")], [("uri", "plain"), ("none", "plain")],
            [("none", "uri"), ("none", "uri")], [("id", "uri"), ("none", "id")], [("none", "plain"), ("uri", "plain")], [("id", "typed"), ("id", "lang")]]
    for gs in trix:
        sig = [("s%d" % i, "s") for i in range(4 * len(gs))]
        m = 1 if (tier == "quick" or len(gs) > 1) else 2
        pre = []
        for gi, (gkind, okind) in enumerate(gs):
            b = 4 * gi
            # graph name, subject, object, language / datatype: unused strings are empty; with two graphs the subject's symbolic part is empty too
            pre.append("len(s%d) <= %d" % (b, m) if gkind != "none" else "len(s%d) == 0" % b)
            pre.append("len(s%d) <= %d" % (b + 1, m) if len(gs) == 1 else "len(s%d) == 0" % (b + 1))
            pre.append("len(s%d) <= %d" % (b + 2, m))
            pre.append("len(s%d) <= %d" % (b + 3, m) if okind in ("lang", "typed") else "len(s%d) == 0" % (b + 3))
        obs.append(dict(oid="K/trix/%s" % "+".join("%s-%s" % g for g in gs), family="k-trix", desc={"graphs": [list(g) for g in gs]}, sig=sig,
                        pre=pre, budget=300 if tier == "quick" else 1200))
    return obs


def bounds(tier):
    return {"k-hext": "11 dataset shapes of 1-2 quads (subject IRI / blank node; object IRI / blank node / plain / language-tagged / typed "
                      "literal; graph default / IRI-named / blank-node-named; the same triple in two graphs; a blank node shared by two "
                      "graphs); every term content is one concrete first character followed by a symbolic string of length <= %d (blank node "
                      "labels <= %d; two-quad shapes: <= %d; literals: the whole lexical form symbolic)" % ((2, 3, 1) if tier == "quick" else (3, 4, 2)),
            "k-trix": "the TriX reader's SAX handler driven with the events of a document of 1-2 <graph> elements (name element uri / id / none, one "
                      "triple each, object IRI / blank node / plain / language / typed literal), all names and contents symbolic strings of length <= 1-2: "
                      "every triple is added to the graph its <graph> element names, unnamed graphs are graphs of their own",
            "outside": "N-Quads, TriG, JSON-LD, RDF Patch, the TriX writer and XML text (text scanners), the JSON text of HexTuples, skolemize=True, plain Graph "
                       "as source or sink, more than two quads"}


def finding_key(ob, cex, reason):
    return "%s|%s" % (ob["family"], reason)
