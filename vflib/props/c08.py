"""C08 — solution modifiers and aggregates follow SPARQL (engine S).

Shape: base pattern, modifier set (query text parsed/translated by rdflib concretely), predicate and
object kind (IRI / integer literal) of every data triple.  Content: subjects (SymIRI), objects (SymIRI
or SymIntLit with symbolic value), LIMIT / OFFSET (symbolic ints substituted into the Slice node).
"""
import itertools
import random

from rdflib import Graph, Literal, URIRef, Variable
from rdflib.namespace import XSD

from .. import sparqlref as R
from ..model import tin
from .c04 import _subst, run_untraced, V, C, P, Q, tp

PROPERTY = "C08"
FUNCTIONS = [
    "rdflib.plugins.sparql.evaluate.evalDistinct", "rdflib.plugins.sparql.evaluate.evalOrderBy", "rdflib.plugins.sparql.evaluate.evalSlice",
    "rdflib.plugins.sparql.evaluate.evalProject", "rdflib.plugins.sparql.evaluate.evalGroup", "rdflib.plugins.sparql.evaluate.evalAggregateJoin",
    "rdflib.plugins.sparql.evaluate.evalExtend", "rdflib.plugins.sparql.evaluate.evalFilter", "rdflib.plugins.sparql.aggregates.Aggregator",
    "rdflib.plugins.sparql.aggregates.Counter", "rdflib.plugins.sparql.aggregates.Sample", "rdflib.plugins.sparql.aggregates.Minimum",
    "rdflib.plugins.sparql.aggregates.Maximum", "rdflib.plugins.sparql.evalutils._val", "rdflib.plugins.sparql.evalutils._eval",
    "rdflib.term.Literal.__gt__", "rdflib.term.Literal.__lt__", "rdflib.term.Literal.eq", "rdflib.term.Identifier.__gt__",
    "(concrete, before the symbolic region) rdflib.plugins.sparql.algebra.translate, translateAggregates",
]
STUBS = ["Literal(x) called on a SymIntLit returns x (copy construction; aggregates.Extremum.set_value)",
         "LIMIT/OFFSET are written as 1000001/1000002 in the text and replaced in the Slice node by symbolic ints",
         "integer literals are SymIntLit (value symbolic, lexical form not modelled); results are compared by value"]
ASSUMPTIONS = ["SUM / AVG values, GROUP_CONCAT text and numeric promotion across float/decimal are not claimed (they need literal "
               "construction from a symbolic value, which realises it)",
               "ties under ORDER BY may come in any order; a slice is compared with the corresponding slice of the ordered sequence only "
               "where the order is total on the rows involved, otherwise with size and sub-multiset conditions"]

LIM, OFF = 1000001, 1000002


def patches():
    """Literal(x) for an x that already is a (symbolic-valued) literal is a copy of x: return x itself, because the
    copy constructor would build a real Literal from the placeholder lexical form and lose the symbolic identity
    (the real library produces an equal literal)."""
    from ..symterms import SymIntLit

    def lit(*a, **kw):
        if len(a) == 1 and not kw and type(a[0]) is SymIntLit:
            return a[0]
        return Literal(*a, **kw)

    return {Literal: lit}


def norm(v):
    """comparable form of a result value: integer literals by value"""
    if isinstance(v, Literal) and v.datatype in (XSD.integer, XSD.decimal) and v.value is not None:
        return ("int", v.value)
    if isinstance(v, Literal) and v.datatype == XSD.boolean:
        return ("bool", bool(v.value))
    return v


def veq(a, b):
    if a is b:
        return True
    if isinstance(a, tuple) or isinstance(b, tuple):
        if not (isinstance(a, tuple) and isinstance(b, tuple)):
            return False
        return a[0] == b[0] and a[1] == b[1]
    if a is None or b is None:
        return False
    return a == b


def row_eq(r1, r2, vs):
    for v in vs:
        if not veq(r1.get(v), r2.get(v)):
            return False
    return True


def same_rows(got, exp, vs):
    if len(got) != len(exp):
        return False
    for m in exp:
        n1 = sum(1 for x in got if row_eq(x, m, vs))
        n2 = sum(1 for x in exp if row_eq(x, m, vs))
        if n1 != n2:
            return False
    return True


def kind_rank(v):
    if v is None:
        return 0
    if isinstance(v, tuple):
        return 3
    return 2  # IRIs (no blank nodes in the data)


def key_lt(a, b):
    """SPARQL ORDER BY '<' on normalised values: unbound < IRI < literal; IRIs by identity order, ints by value"""
    ra, rb = kind_rank(a), kind_rank(b)
    if ra != rb:
        return ra < rb
    if ra == 0:
        return False
    if ra == 3:
        return a[1] < b[1]
    return a < b


def key_eq(a, b):
    return kind_rank(a) == kind_rank(b) and (a is None or veq(a, b))


def precedes_wrongly(r_later, r_earlier, order):
    """True if r_later must come strictly before r_earlier under the ORDER BY keys"""
    for direction, var in order:
        a, b = r_later.get(var), r_earlier.get(var)
        if key_eq(a, b):
            continue
        lt = key_lt(a, b)
        return lt if direction == "asc" else not lt
    return False


# ----------------------------------------------------------------------------- rendering
def render(desc):
    m = desc["mods"]
    sel = []
    for item in m["select"]:
        if isinstance(item, str):
            sel.append("?" + item)
        else:
            func, dist, arg, alias = item
            a = "*" if arg == "*" else "?" + arg
            sel.append("(%s(%s%s) AS ?%s)" % (func, "DISTINCT " if dist else "", a, alias))
    text = "SELECT %s%s WHERE %s" % ("DISTINCT " if m.get("distinct") else "", " ".join(sel) or "*", R.r_group(desc["group"]))
    if m.get("group_by"):
        text += " GROUP BY " + " ".join("?" + v for v in m["group_by"])
    if m.get("having"):
        func, arg, op, n = m["having"]
        if func == "KEY":
            text += " HAVING (bound(?%s))" % arg      # a constraint on a group key, no aggregate in it
        else:
            text += " HAVING (%s(?%s) %s %d)" % (func, arg, op, n)
    if m.get("order"):
        text += " ORDER BY " + " ".join(("DESC(?%s)" if d == "desc" else "?%s") % v for d, v in m["order"])
    if m.get("limit"):
        text += " LIMIT %d" % LIM
    if m.get("offset"):
        text += " OFFSET %d" % OFF
    return text


def _subst_slice(x, lim, off):
    from rdflib.plugins.sparql.parserutils import CompValue
    if isinstance(x, CompValue):
        if x.name == "Slice":
            if type(x.get("length")) is int and x.get("length") == LIM:
                x["length"] = lim
            if type(x.get("start")) is int and x.get("start") == OFF:
                x["start"] = off
        for key in list(x.keys()):
            v = x[key]
            if isinstance(v, CompValue):
                _subst_slice(v, lim, off)


# ----------------------------------------------------------------------------- reference
def aggregate(rows, item):
    func, dist, arg, alias = item
    if func == "COUNT":
        if arg == "*":
            vals = rows
            if dist:
                keys = sorted({k for r in rows for k in r})
                d = []
                for r in rows:
                    if not any(row_eq(r, x, keys) for x in d):
                        d.append(r)
                vals = d
            return ("int", len(vals))
        vals = [r[arg] for r in rows if r.get(arg) is not None]
        if dist:
            d = []
            for v in vals:
                if not any(veq(v, x) for x in d):
                    d.append(v)
            vals = d
        return ("int", len(vals))
    vals = [r[arg] for r in rows if r.get(arg) is not None]
    if not vals:
        return None
    if func == "SAMPLE":
        return ("anyof", vals)
    best = vals[0]
    for v in vals[1:]:
        if func == "MIN" and key_lt(v, best):
            best = v
        if func == "MAX" and key_lt(best, v):
            best = v
    return best


def body_mod(desc, F, *args):
    from rdflib.plugins.sparql.evaluate import evalQuery
    from rdflib.plugins.sparql.processor import prepareQuery

    g = Graph()
    data = {"default": [], "named": {}}
    i = 0
    for pn, kind in desc["data"]:
        s = F.iri(args[i])
        if kind == "V":   # value + spelling: value-equal literals that are different terms
            o = F.lit2(args[i + 1], args[i + 2])
            i += 3
        else:
            o = F.lit(args[i + 1]) if kind == "L" else F.iri(args[i + 1])
            i += 2
        g.add((s, R.IRIS[pn], o))
        if not tin((s, pn, o), data["default"]):
            data["default"].append((s, pn, o))
    m = desc["mods"]
    lim = off = None
    if m.get("limit"):
        lim = args[i]
        i += 1
    if m.get("offset"):
        off = args[i]
        i += 1

    def mk():
        q = prepareQuery(desc["text"])
        if lim is not None or off is not None:
            _subst_slice(q.algebra, lim, off)
        return q

    sols = R.Ref(data, []).group(desc["group"], "default")
    sols = [{k: norm(v) for k, v in mu.items()} for mu in sols]
    if desc.get("public"):
        # the public route Graph.query(text) -> Result: the sequence is what iteration and .bindings show
        ro = g.query(desc["text"])
        rows = list(ro)     # first consumer: the result's generator branch
        res = {"bindings": ro.bindings}
        if len(list(ro)) != len(rows):
            return "iterating the result twice gives different numbers of rows (%s)" % desc["name"]
        shown = [b for b in ro.bindings if len(b) > 0]   # (iteration leaves out all-unbound solutions: recorded under C04)
        if len(rows) != len(shown):
            return "iteration of the result and its bindings have different lengths (%s)" % desc["name"]
        for row, b in zip(rows, shown):
            for v in ro.vars:
                a = row[v]
                try:
                    bb = b[v]
                except KeyError:
                    bb = None
                if (a is None) != (bb is None) or (a is not None and not a == bb):
                    return "iteration of the result gives another sequence than its bindings (%s)" % desc["name"]
    else:
        q = run_untraced(mk)
        res = evalQuery(g, q)
    outvars = [x if isinstance(x, str) else x[3] for x in m["select"]] or R.vars_in_scope(desc["group"])
    got = []
    for b in res["bindings"]:
        row = {}
        for v in outvars:
            try:
                val = b[Variable(v)]
            except KeyError:
                val = None
            if val is not None:
                row[v] = norm(val)
        got.append(row)
    # ---- expected rows
    aggs = [x for x in m["select"] if not isinstance(x, str)]
    if aggs or m.get("group_by"):
        keys = m.get("group_by") or []
        groups = []
        for mu in sols:
            for gr in groups:
                if row_eq(gr[0], mu, keys):
                    gr[1].append(mu)
                    break
            else:
                groups.append(({k: mu.get(k) for k in keys}, [mu]))
        if not keys and not groups:
            groups = [({}, [])]  # the implicit group exists even for empty input
        if keys and not groups:
            # explicit GROUP BY over no solutions: the algebra gives no group, the approved W3C test
            # agg-empty-group expects one row with unbound variables; both are accepted
            if len(got) == 0:
                return None
            if len(got) == 1 and all(v is None or (isinstance(v, tuple) and v == ("int", 0)) for v in
                                     (got[0].get(x) for x in outvars)):
                return None
            return "GROUP BY over empty input returns neither nothing nor one empty row (%s)" % desc["name"]
        exp = []
        for keyrow, rows in groups:
            if m.get("having"):
                func, arg, op, n = m["having"]
                if func == "KEY":
                    if keyrow.get(arg) is None:
                        continue
                else:
                    c = aggregate(rows, (func, False, arg, "_h"))[1]
                    if not {">": c > n, "=": c == n, "<": c < n}[op]:
                        continue
            row = {k: v for k, v in keyrow.items() if v is not None}
            for item in aggs:
                val = aggregate(rows, item)
                if val is not None:
                    row[item[3]] = val
            exp.append(row)
    else:
        exp = [{v: mu[v] for v in outvars if v in mu} for mu in sols]
    if m.get("distinct"):
        d = []
        for r in exp:
            if not any(row_eq(r, x, outvars) for x in d):
                d.append(r)
        exp = d

    def cell_ok(gv, ev):
        if isinstance(ev, tuple) and ev[0] == "anyof":
            return any(veq(gv, x) for x in ev[1])
        return veq(gv, ev)

    def rows_match(grow, erow):
        return all(cell_ok(grow.get(v), erow.get(v)) for v in outvars)

    sliced = m.get("limit") or m.get("offset")
    if not sliced:
        if len(got) != len(exp):
            return "number of result rows differs (%s)" % desc["name"]
        used = []
        for e in exp:
            hit = None
            for j, r in enumerate(got):
                if j not in used and rows_match(r, e):
                    hit = j
                    break
            if hit is None:
                return "result rows differ from the defined result (%s)" % desc["name"]
            used.append(hit)
    order = m.get("order") or []
    for a in range(len(got)):
        for b in range(a + 1, len(got)):
            if order and precedes_wrongly(got[b], got[a], order):
                return "ORDER BY: a later row precedes an earlier one (%s)" % desc["name"]
    if sliced:
        o = off if off is not None else 0
        total = len(exp)
        n = max(0, total - o)
        if lim is not None:
            n = min(n, lim)
        if len(got) != n:
            return "LIMIT/OFFSET: wrong number of rows (%s)" % desc["name"]
        # every returned row is one of the full result, respecting multiplicity
        used = []
        for r in got:
            hit = None
            for j, e in enumerate(exp):
                if j not in used and rows_match(r, e):
                    hit = j
                    break
            if hit is None:
                return "LIMIT/OFFSET: returned a row that is not in the full result (%s)" % desc["name"]
            used.append(hit)
        if order:
            # rows left out before the slice must not sort strictly after a returned row, and rows left out
            # after it not strictly before: with `skipped` = full result minus returned rows, at most `o` of
            # them may precede the first returned row ... checked in the decisive form: count rows of the
            # full result that must come strictly before each returned row
            rest = [e for j, e in enumerate(exp) if j not in used]
            for idx, r in enumerate(got):
                before = sum(1 for e in exp if precedes_wrongly(e, r, order))
                after = sum(1 for e in exp if precedes_wrongly(r, e, order))
                pos = o + idx
                if before > pos:
                    return "LIMIT/OFFSET: slice is not taken from the ordered sequence (%s)" % desc["name"]
                if after > total - 1 - pos:
                    return "LIMIT/OFFSET: slice is not taken from the ordered sequence (%s)" % desc["name"]
    return None


BODIES = {"mod": body_mod}

# ----------------------------------------------------------------------------- catalogue
S_, O_, Z_ = V("s"), V("o"), V("z")
BASES = {
    "bgp": [tp(S_, P, O_)],
    "union": [["union", [tp(S_, P, O_)], [tp(S_, Q, Z_)]]],
    "optional": [tp(S_, P, O_), ["opt", [tp(S_, Q, Z_)]]],
}


def modsets():
    out = {}
    out["distinct-o"] = dict(select=["o"], distinct=True)
    out["distinct-so"] = dict(select=["s", "o"], distinct=True)
    out["order-o"] = dict(select=["s", "o"], order=[("asc", "o")])
    out["order-desc-o"] = dict(select=["s", "o"], order=[("desc", "o")])
    out["order-o-s"] = dict(select=["s", "o"], order=[("asc", "o"), ("asc", "s")])
    out["order-desc-o-s"] = dict(select=["s", "o"], order=[("desc", "o"), ("asc", "s")])
    out["order-s-desc-o"] = dict(select=["s", "o"], order=[("asc", "s"), ("desc", "o")])
    out["order-o-limit"] = dict(select=["s", "o"], order=[("asc", "o"), ("asc", "s")], limit=True)
    out["order-o-offset"] = dict(select=["s", "o"], order=[("asc", "o"), ("asc", "s")], offset=True)
    out["order-desc-limit-offset"] = dict(select=["s", "o"], order=[("desc", "o")], limit=True, offset=True)
    out["limit"] = dict(select=["s", "o"], limit=True)
    out["limit-offset"] = dict(select=["s", "o"], limit=True, offset=True)
    out["distinct-order-limit"] = dict(select=["o"], distinct=True, order=[("asc", "o")], limit=True)
    for f in ("COUNT", "SAMPLE", "MIN", "MAX"):
        out["group-%s" % f.lower()] = dict(select=["s", (f, False, "o", "a")], group_by=["s"])
        out["implicit-%s" % f.lower()] = dict(select=[(f, False, "o", "a")])
    out["group-count-star"] = dict(select=["s", ("COUNT", False, "*", "a")], group_by=["s"])
    out["implicit-count-star"] = dict(select=[("COUNT", False, "*", "a")])
    out["group-count-distinct"] = dict(select=["s", ("COUNT", True, "o", "a")], group_by=["s"])
    out["implicit-count-distinct"] = dict(select=[("COUNT", True, "o", "a")])
    out["group-two-aggs"] = dict(select=["s", ("COUNT", False, "o", "a"), ("MAX", False, "o", "b")], group_by=["s"])
    out["group-by-o-count-s"] = dict(select=["o", ("COUNT", False, "s", "a")], group_by=["o"])
    out["group-having"] = dict(select=["s", ("COUNT", False, "o", "a")], group_by=["s"], having=("COUNT", "o", ">", 1))
    out["group-having-key-not-projected"] = dict(select=[("COUNT", False, "s", "a")], group_by=["o"], having=("KEY", "o", "", 0))
    out["group-having-key-projected"] = dict(select=["o", ("COUNT", False, "s", "a")], group_by=["o"], having=("KEY", "o", "", 0))
    out["group-order-alias"] = dict(select=["s", ("COUNT", False, "o", "a")], group_by=["s"], order=[("desc", "a"), ("asc", "s")])
    out["group-order-min"] = dict(select=["s", ("MIN", False, "o", "a")], group_by=["s"], order=[("asc", "a"), ("asc", "s")])
    out["group-only"] = dict(select=["s"], group_by=["s"])
    return out


def unbound_modsets():
    """for the union / optional bases: keys and aggregate arguments that are unbound in some rows"""
    out = {}
    out["order-z"] = dict(select=["s", "o", "z"], order=[("asc", "z"), ("asc", "s")])
    out["order-desc-z-o"] = dict(select=["s", "o", "z"], order=[("desc", "z"), ("asc", "o")])
    out["distinct-z"] = dict(select=["z"], distinct=True)
    out["group-count-z"] = dict(select=["s", ("COUNT", False, "z", "a")], group_by=["s"])
    out["group-count-distinct-z"] = dict(select=["s", ("COUNT", True, "z", "a")], group_by=["s"])
    out["group-min-z"] = dict(select=["s", ("MIN", False, "z", "a")], group_by=["s"])
    out["group-sample-z"] = dict(select=["s", ("SAMPLE", False, "z", "a")], group_by=["s"])
    out["group-by-z"] = dict(select=["z", ("COUNT", False, "*", "a")], group_by=["z"])
    out["implicit-max-z"] = dict(select=[("MAX", False, "z", "a")])
    out["order-z-limit"] = dict(select=["s", "z"], order=[("asc", "z"), ("asc", "s")], limit=True, offset=True)
    return out


def obligations(tier, seed):
    rnd = random.Random(seed)
    obs = []

    def add(bname, mname, mods, data, budget):
        group = BASES[bname]
        desc = {"name": "%s/%s" % (bname, mname), "group": group, "mods": mods, "data": [list(x) for x in data]}
        desc["text"] = render(desc)
        nd = sum(3 if kd == "V" else 2 for _, kd in data)
        nsym = nd + (1 if mods.get("limit") else 0) + (1 if mods.get("offset") else 0)
        sig = [("x%d" % i, "i") for i in range(nsym)]
        pre = []
        k = nd
        j = 0
        for _, kd in data:
            if kd == "V":
                pre.append("0 <= x%d <= 1" % (j + 2))   # two spellings are enough
                j += 3
            else:
                j += 2
        n = len(data)
        if mods.get("limit"):
            pre.append("0 <= x%d <= %d" % (k, n + 1))
            k += 1
        if mods.get("offset"):
            pre.append("0 <= x%d <= %d" % (k, n + 1))
        obs.append(dict(oid="m/%s/%s/%s" % (bname, mname, "".join(p + kd for p, kd in data)), family="mod", desc=desc,
                        sig=sig, pre=pre, budget=budget))
        if bname == "bgp" and n == 2 and data[0][1] == "L" and not mods.get("limit") and not mods.get("offset"):
            # the same query as text through Graph.query() (no symbolic LIMIT/OFFSET: they are substituted into the algebra)
            obs.append(dict(oid="m/%s/%s/%s-public" % (bname, mname, "".join(p + kd for p, kd in data)), family="mod",
                            desc=dict(desc, public=True), sig=sig, pre=pre, budget=budget))

    M = modsets()
    for mname, mods in M.items():
        for kinds in (("L",), ("I",)) if tier == "quick" else (("L",), ("I",), ("L", "I")):
            for n in ((0, 2, 3) if tier == "quick" else (0, 1, 2, 3, 4)):
                if n == 0 and kinds != ("L",):
                    continue
                if n == 4 and (kinds != ("L",) or mods.get("limit") or mods.get("offset")):
                    continue
                if len(kinds) == 2:
                    if n < 2:
                        continue
                    data = [("p", kinds[j % 2]) for j in range(n)]
                else:
                    data = [("p", kinds[0])] * n
                if tier == "quick" and n == 3 and kinds == ("I",) and not mods.get("order"):
                    continue
                if tier == "quick" and n == 3 and mods.get("offset"):
                    continue  # ~400-500 s CPU each: thorough tier
                add("bgp", mname, mods, data, {0: 60, 1: 60, 2: 200, 3: 500 if tier == "quick" else 1500, 4: 2500}[n])
    # value-equal literals that are different terms (1 vs "1.0"^^xsd:decimal): ORDER BY only (DISTINCT / GROUP BY are term-based)
    for mname in ("order-o", "order-o-s", "order-desc-o-s", "order-s-desc-o", "order-o-limit"):
        for n in ((2, 3) if tier == "quick" else (2, 3, 4)):
            if mname == "order-o-limit" and n > 2 and tier == "quick":
                continue
            add("bgp", mname, M[mname], [("p", "V")] * n, {2: 200, 3: 600, 4: 2000}[n])
    U = unbound_modsets()
    for bname in ("union", "optional"):
        for mname, mods in U.items():
            shapes = [[("p", "I"), ("q", "L")], [("p", "I"), ("q", "L"), ("q", "L")], [("p", "I"), ("p", "I"), ("q", "L")]]
            if tier == "quick":
                shapes = shapes[:2]
            else:
                shapes.append([("p", "I"), ("q", "I"), ("q", "L")])
            for data in shapes:
                if tier == "quick" and len(data) == 3 and mods.get("offset"):
                    continue
                add(bname, mname, mods, data, 200 if len(data) == 2 else (600 if tier == "quick" else 1500))
    return obs


def bounds(tier):
    return {"mod": "%d modifier sets over a BGP (DISTINCT, ORDER BY asc/desc 1-2 keys, LIMIT/OFFSET with symbolic integers 0..n+1, "
                   "GROUP BY / implicit group with COUNT(*), COUNT, COUNT DISTINCT, SAMPLE, MIN, MAX, HAVING, ORDER BY on an aggregate alias) "
                   "and %d over UNION / OPTIONAL bases with unbound cells; data n in {0,2,3}%s rows, objects integer literals with symbolic "
                   "value or IRIs (kind by shape), subjects symbolic IRIs" % (len(modsets()), len(unbound_modsets()), "" if tier == "quick" else " plus 1 and 4"),
            "public": "every modifier set without LIMIT/OFFSET also as text through Graph.query() -> Result: iteration (twice) and .bindings show the same sequence (n=2)",
            "outside": "SUM, AVG, GROUP_CONCAT, arithmetic on aggregates, REDUCED, blank nodes as sort keys, literals other than integers, n>4"}


def finding_key(ob, cex, reason):
    import re
    return "mod|%s" % reason


def untraced():
    # the `public` obligations call Graph.query(text): rdflib's parser and translator run on concrete text, outside the tracer
    from rdflib.plugins.sparql.algebra import translateQuery
    from rdflib.plugins.sparql.parser import parseQuery
    from ..driver import default_untraced
    return default_untraced() + [parseQuery, translateQuery]
