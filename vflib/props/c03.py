"""C03 — serialise then parse gives back the same graph (engine K; partial: per-term text round trips).

Document-level round trips are out of reach (see DESIGN.md); decided here is the part the property's
"why tests can't" singles out: escaping decided per character, for every string up to the bound.
"""
from .. import kern

PROPERTY = "C03"
FUNCTIONS = [
    "rdflib.plugins.serializers.nt._quote_encode", "rdflib.plugins.serializers.nt._quoteLiteral", "rdflib.plugins.parsers.ntriples.unquote",
    "rdflib.compat.decodeUnicodeEscape", "rdflib.term.Literal._quote_encode", "rdflib.term.Literal._literal_n3 (plain numeric branch)",
    "rdflib.plugins.parsers.notation3.SinkParser.strconst", "xml.sax.saxutils.escape / quoteattr (as called by XMLWriter.text / attribute)",
]
STUBS = ["Literal._quote_encode is called unbound on a symbolic str receiver", "SinkParser without a sink",
         "expat is C code: the XML read side is a reference XML 1.0 unescaper written in the harness",
         "Literal._literal_n3(use_plain=True) is driven with a receiver stub exposing datatype / value / __format__ / _quote_encode"]
ASSUMPTIONS = ["claimed: literal lexical forms through the N-Triples, Turtle/N3 (short and long quoting) and XML text/attribute writers and "
               "back; not claimed: blank-node inlining, list detection, subject ordering, qname splitting, RDF/XML nesting, JSON-LD, "
               "HexTuples, TriX, termination on cyclic lists (graph-shaped code whose content cannot be symbolic)"]
BODIES = dict(kern.BODIES)


def obligations(tier, seed):
    n = 3 if tier == "quick" else 4
    big = 400 if tier == "quick" else 3600
    obs = [dict(oid="K/nt-lit/len<=%d" % n, family="k-nt-writer", desc={"reader": True}, sig=[("s", "s")], pre=["len(s) <= %d" % n], budget=big)]
    tails = ["", " .", "@en", "^^<urn:dt>", " ;", ","] if tier == "thorough" else ["", " .", "@en"]
    for tail in tails:
        m = n if tail in ("", " .") else n - 1
        obs.append(dict(oid="K/ttl-lit/len<=%d/tail=%r" % (m, tail), family="k-ttl-roundtrip", desc={"tail": tail}, sig=[("s", "s")],
                        pre=["len(s) <= %d" % m], budget=big))
    # strings that force the long (triple-quoted) form: a newline is prepended by shape
    obs.append(dict(oid="K/ttl-lit-long/len<=%d" % (n - 1), family="k-ttl-roundtrip-long", desc={"tail": " ."}, sig=[("s", "s")],
                    pre=["len(s) <= %d" % (n - 1)], budget=big))
    obs.append(dict(oid="K/xml-text/len<=%d" % n, family="k-xml-text", desc={}, sig=[("s", "s")], pre=["len(s) <= %d" % n], budget=big))
    for dt in ("integer", "decimal", "boolean"):
        obs.append(dict(oid="K/plain-num/%s" % dt, family="k-plain-num", desc={"dt": dt}, sig=[("s", "s")],
                        pre=["len(s) <= %d" % (4 if tier == "quick" else 5)], budget=big))
    return obs


def bounds(tier):
    n = 3 if tier == "quick" else 4
    return {"k-nt-writer": "every string of length <= %d" % n, "k-ttl-roundtrip": "every string of length <= %d, followed by 3-5 continuations" % n,
            "k-ttl-roundtrip-long": "newline + every string of length <= %d (long quoting branch)" % (n - 1),
            "k-xml-text": "every string of length <= %d" % n,
            "k-plain-num": "every lexical form of length <= %d valid for xsd:integer / decimal / boolean through the Turtle shorthand writer, "
                           "re-typed by the reader's numeric patterns" % (4 if tier == "quick" else 5),
            "outside": "documents, graph topology, longer strings, double/float shorthand (floats)"}


def finding_key(ob, cex, reason):
    return "%s|%s" % (ob["family"], reason)
