"""C03 — serialise then parse gives back the same graph (engine K; partial: per-term text round trips).

Document-level round trips are out of reach (see DESIGN.md); decided here is the part the property's
"why tests can't" singles out: escaping decided per character, for every string up to the bound.
"""
from .. import kern

PROPERTY = "C03"
FUNCTIONS = [
    "rdflib.plugins.serializers.nt._quote_encode", "rdflib.plugins.serializers.nt._quoteLiteral", "rdflib.plugins.parsers.ntriples.unquote",
    "rdflib.compat.decodeUnicodeEscape", "rdflib.term.Literal._quote_encode", "rdflib.term.Literal._literal_n3 (plain numeric branch)",
    "rdflib.plugins.parsers.notation3.SinkParser.strconst", "rdflib.plugins.serializers.jsonld.Converter.to_collection",
    "rdflib.plugins.serializers.turtle.TurtleSerializer.isValidList", "rdflib.plugins.serializers.longturtle.LongTurtleSerializer.isValidList", "xml.sax.saxutils.escape / quoteattr (as called by XMLWriter.text / attribute)",
]
STUBS = ["Literal._quote_encode is called unbound on a symbolic str receiver", "SinkParser without a sink",
         "expat is C code: the XML read side is a reference XML 1.0 unescaper written in the harness",
         "Literal._literal_n3(use_plain=True) is driven with a receiver stub exposing datatype / value / __format__ / _quote_encode"]
ASSUMPTIONS = ["claimed: literal lexical forms through the N-Triples, Turtle/N3 (short and long quoting) and XML text/attribute writers and "
               "back; not claimed: blank-node inlining, list detection, subject ordering, qname splitting, RDF/XML nesting, JSON-LD, "
               "HexTuples, TriX, termination on cyclic lists (graph-shaped code whose content cannot be symbolic)"]
BODIES = dict(kern.BODIES)

# ---- engine S on the list-detection code of the serializers ---------------------------------------------------
MALFORMED = ["ok", "no-rest-last", "no-first-mid", "two-firsts", "extra-prop", "extra-type", "cycle", "dangling-rest"]


def _chain(desc, F, args):
    """concrete cells, symbolic members (SymIntLit: identity + truthiness, duplicates possible); defect by shape"""
    from rdflib import BNode, Graph, RDF, URIRef

    class CountingGraph(Graph):
        """turns divergence of a list walker into a verdict (a step budget on triples() calls)"""
        budget = 300

        def triples(self, t):
            self.budget -= 1
            if self.budget < 0:
                raise RuntimeError("diverged")
            return super().triples(t)

    n = desc["n"]
    g = CountingGraph()
    cells = [BNode("c%d" % i) for i in range(n)]
    ms = [F.lit(args[i]) for i in range(n)]
    extra = F.lit(args[n])
    d = desc["defect"]
    k = desc.get("at", n - 1)
    for i in range(n):
        if not (d == "no-first-mid" and i == k):
            g.add((cells[i], RDF.first, ms[i]))
        if i + 1 < n:
            g.add((cells[i], RDF.rest, cells[i + 1]))
    if d == "cycle":
        # the last cell's rdf:rest points back to cell k: k = 0 closes a ring through the head, k > 0 gives a lasso
        # (a ring that the walk enters but that does not contain the head), k = n - 1 a self-loop
        g.add((cells[n - 1], RDF.rest, cells[k]))
    elif d == "dangling-rest":
        g.add((cells[n - 1], RDF.rest, BNode("nowhere")))
    elif d != "no-rest-last":
        g.add((cells[n - 1], RDF.rest, RDF.nil))
    if d == "two-firsts":
        g.add((cells[k], RDF.first, extra))
    if d == "extra-prop":
        g.add((cells[k], URIRef("urn:p"), extra))
    if d == "extra-type":
        # a cell that is also an instance of some class: writing the chain as a list would lose that statement
        g.add((cells[k], RDF.type, URIRef("urn:Class")))
    g.add((URIRef("urn:s"), URIRef("urn:list"), cells[0]))
    malformed = d != "ok"
    if d == "two-firsts" and (extra is ms[k] or extra == ms[k]):
        malformed = False  # the "second" rdf:first is the same triple
    return g, cells, ms, malformed


def s_list_jsonld(desc, F, *args):
    """jsonld.Converter.to_collection: a well-formed list converts to exactly its members in order (or is declined with None,
    in which case the cells are written as plain nodes); a malformed chain is never presented as a list"""
    from rdflib.plugins.serializers.jsonld import Converter
    from rdflib.plugins.shared.jsonld.context import Context
    from .c04 import run_untraced
    g, cells, ms, malformed = _chain(desc, F, args)
    conv = run_untraced(lambda: Converter(Context(), False, False))
    g.budget = 300
    try:
        out = conv.to_collection(g, cells[0])
    except RuntimeError:
        return "JSON-LD list conversion does not terminate on this chain (%s)" % desc["defect"]
    if out is None:
        return None
    if malformed:
        return "JSON-LD presents a malformed rdf:first/rdf:rest chain (%s) as a list" % desc["defect"]
    if len(out) != len(ms):
        return "JSON-LD list conversion loses or adds members"
    for a, b in zip(out, ms):
        if not (a is b or a == b):
            return "JSON-LD list conversion changes a member or the order"
    return None


def s_list_turtle(desc, F, *args):
    """TurtleSerializer / LongTurtleSerializer.isValidList: the ( ... ) shorthand may only be chosen for a well-formed chain"""
    from rdflib.plugins.serializers.longturtle import LongTurtleSerializer
    from rdflib.plugins.serializers.turtle import TurtleSerializer
    from .c04 import run_untraced
    g, cells, ms, malformed = _chain(desc, F, args)
    cls = {"turtle": TurtleSerializer, "longturtle": LongTurtleSerializer}[desc["ser"]]
    ser = run_untraced(lambda: cls(g))
    g.budget = 300
    try:
        ok = ser.isValidList(cells[0])
    except RuntimeError:
        return "%s list detection does not terminate on this chain (%s)" % (desc["ser"], desc["defect"])
    if ok and malformed:
        return "%s would abbreviate a malformed chain (%s) as ( ... )" % (desc["ser"], desc["defect"])
    if not malformed and not ok and not (ms[0] is None):
        # declining a well-formed list is harmless for the round trip; only recorded for falsy heads etc. — not an error
        return None
    return None


BODIES["s-list-jsonld"] = s_list_jsonld
BODIES["s-list-turtle"] = s_list_turtle


# ---- engine R: the numeric-shorthand guards of Literal._literal_n3 -------------------------------------------------
# CrossHair's model of `re` treats `$` as end of string; CPython also lets it match before a final newline.  The K
# obligations above therefore cannot see a guard that is too permissive only in that respect; this obligation decides
# the guards' languages with z3 directly, from the pattern objects and the way the live source applies them.
TTL_INTEGER = r"[+-]?[0-9]+"
TTL_DECIMAL = r"[+-]?[0-9]*\.[0-9]+"


def _shorthand_guards():
    """[(datatype name, pattern global name, method)] read from the current source of Literal._literal_n3"""
    import ast
    import inspect
    import textwrap
    import rdflib.term as term
    tree = ast.parse(textwrap.dedent(inspect.getsource(term.Literal._literal_n3)))
    out = []

    def dt_of(test):
        # self.datatype == NAME
        if (isinstance(test, ast.Compare) and len(test.ops) == 1 and isinstance(test.ops[0], ast.Eq)
                and isinstance(test.comparators[0], ast.Name)):
            return test.comparators[0].id
        return None

    def visit(node, ctx):
        if isinstance(node, ast.If):
            d = dt_of(node.test)
            if d is not None:
                visit(node.test, ctx)
                for b in node.body:
                    visit(b, d)
                for b in node.orelse:
                    visit(b, "else" if not (len(node.orelse) == 1 and isinstance(b, ast.If) and dt_of(b.test)) else ctx)
                return
        if (isinstance(node, ast.Call) and isinstance(node.func, ast.Attribute) and isinstance(node.func.value, ast.Name)
                and isinstance(getattr(term, node.func.value.id, None), type(term._lang_tag_regex))):
            out.append((ctx, node.func.value.id, node.func.attr))
        for ch in ast.iter_child_nodes(node):
            visit(ch, ctx)

    visit(tree, None)
    return out


def _guard_language(guard):
    from .. import rx
    import rdflib.term as term
    ctx, name, method = guard
    if method not in ("match", "fullmatch"):
        raise rx.Unsupported("guard %s applied with .%s()" % (name, method))
    return rx.to_z3(getattr(term, name), strict_end=method == "fullmatch")


def _guard_target(ctx):
    import rdflib.term as term
    from rdflib.namespace import XSD
    if ctx == "else":
        # the branch left over for the plain types not named in an explicit test
        return "integer"
    val = getattr(term, ctx, None) if ctx else None
    return {XSD.integer: "integer", XSD.decimal: "decimal"}.get(val)


def run_custom(ob):
    from .. import rx
    import time
    import z3
    t0 = time.time()
    out = {"paths": 0, "queries": 0, "solver_s": 0.0, "cpu_s": 0.0, "cex": None, "detail": ""}
    try:
        guards = _shorthand_guards()
        todo = []
        for g in guards:
            tgt = _guard_target(g[0])
            if tgt is None:
                raise rx.Unsupported("shorthand guard %s.%s() in a branch that is not understood (%r)" % (g[1], g[2], g[0]))
            todo.append((g, tgt, _guard_language(g)))
    except rx.Unsupported as e:
        out.update(verdict="inconclusive", detail=str(e))
        return out
    out["detail"] = "guards: %s" % ", ".join("%s.%s() for %s" % (g[1], g[2], t) for g, t, _ in todo) if todo else "no regex guard in _literal_n3"
    verdict = "confirmed"
    for g, tgt, lang in todo:
        res, w, dt = rx.included(lang, rx.to_z3(TTL_INTEGER if tgt == "integer" else TTL_DECIMAL, strict_end=True), timeout_ms=int(ob["budget"] * 1000))
        out["queries"] += 1
        out["paths"] += 1
        out["solver_s"] = round(out["solver_s"] + dt, 3)
        if res == "sat":
            w = rx.unescape_z3(w)
            cex = {"witness": w, "dt": tgt}
            r = replay_custom(ob, cex)
            out["cex"] = cex
            out["verdict"] = "refuted"
            out["replay"] = {"falsy": "str", "reason": r} if r else None
            out["cpu_s"] = round(time.time() - t0, 3)
            return out
        if res != "unsat":
            verdict = "inconclusive"
            out["detail"] += "; solver answered %s for %s" % (res, g[1])
    out["verdict"] = verdict
    # reachability twin: each guard language is non-empty (an empty guard would pass trivially; the K obligations
    # separately require that the shorthand is actually produced for canonical forms)
    twin_ok = True
    for g, tgt, lang in todo:
        s = z3.String("s")
        sol = z3.Solver()
        sol.add(z3.InRe(s, lang))
        out["queries"] += 1
        twin_ok = twin_ok and sol.check() == z3.sat
    out["twin"] = {"verdict": "refuted" if twin_ok else "confirmed", "replayed_ok": twin_ok, "cex": None}
    out["cpu_s"] = round(time.time() - t0, 3)
    return out


def replay_custom(ob, cex):
    """the witness passes the live guard but is not a Turtle INTEGER/DECIMAL token: write it and read it back"""
    from rdflib import Graph, Literal, URIRef
    from rdflib.namespace import XSD
    w, tgt = cex["witness"], cex["dt"]
    dt = XSD.integer if tgt == "integer" else XSD.decimal
    lit = Literal(w, datatype=dt, normalize=False)
    if lit.value is None:
        return None  # no value: the shorthand branch is not entered for this text
    import re
    token = lit._literal_n3(use_plain=True)
    if token[:1] == '"' or re.fullmatch(TTL_INTEGER if tgt == "integer" else TTL_DECIMAL, token):
        return None  # quoted with its datatype, or a legal token: the guard did its job for this text
    g = Graph()
    g.add((URIRef("urn:s"), URIRef("urn:p"), lit))
    import rdflib
    saved = rdflib.NORMALIZE_LITERALS
    rdflib.NORMALIZE_LITERALS = False  # compare lexical forms as written
    try:
        for fmt in ("turtle", "longturtle", "n3"):
            try:
                text = g.serialize(format=fmt)
                h = Graph().parse(data=text, format="turtle" if fmt == "longturtle" else fmt)
            except Exception as e:
                return "the xsd:%s literal %r is written bare as %r, not a Turtle token; the %s output does not parse (%s)" % (
                    tgt, w, token, fmt, type(e).__name__)
            if set(h) != set(g):
                return "the xsd:%s literal %r is written bare as %r, not a Turtle token; the %s output reads back as %r" % (
                    tgt, w, token, fmt, list(h.objects()))
    finally:
        rdflib.NORMALIZE_LITERALS = saved
    return None


def obligations(tier, seed):
    n = 3 if tier == "quick" else 4
    big = 400 if tier == "quick" else 3600
    obs = [dict(oid="K/nt-lit/len<=%d" % n, family="k-nt-writer", desc={"reader": True}, sig=[("s", "s")], pre=["len(s) <= %d" % n], budget=big)]
    tails = ["", " .", "@en", "^^<urn:dt>", " ;", ","] if tier == "thorough" else ["", " .", "@en"]
    for tail in tails:
        m = n if tail in ("", " .") else n - 1
        obs.append(dict(oid="K/ttl-lit/len<=%d/tail=%r" % (m, tail), family="k-ttl-roundtrip", desc={"tail": tail}, sig=[("s", "s")],
                        pre=["len(s) <= %d" % m], budget=big))
    # strings that force the long (triple-quoted) form: a newline is prepended by shape
    obs.append(dict(oid="K/ttl-lit-long/len<=%d" % (n - 1), family="k-ttl-roundtrip-long", desc={"tail": " ."}, sig=[("s", "s")],
                    pre=["len(s) <= %d" % (n - 1)], budget=big))
    obs.append(dict(oid="K/xml-text/len<=%d" % n, family="k-xml-text", desc={}, sig=[("s", "s")], pre=["len(s) <= %d" % n], budget=big))
    for n in ((2, 3) if tier == "quick" else (1, 2, 3, 4)):
        for d in MALFORMED:
            ats = [n - 1] if d in ("ok", "no-rest-last", "dangling-rest") else list(range(n))
            if d == "no-first-mid":
                ats = [a for a in ats if a > 0]
            for at in ats:
                sig = [("m%d" % i, "i") for i in range(n + 1)]
                obs.append(dict(oid="S/list-jsonld/%d/%s@%d" % (n, d, at), family="s-list-jsonld", desc={"n": n, "defect": d, "at": at}, sig=sig, budget=300))
                for ser in ("turtle", "longturtle"):
                    obs.append(dict(oid="S/list-%s/%d/%s@%d" % (ser, n, d, at), family="s-list-turtle",
                                    desc={"n": n, "defect": d, "at": at, "ser": ser}, sig=sig, budget=300))
    for dt in ("integer", "decimal", "boolean"):
        obs.append(dict(oid="K/plain-num/%s" % dt, family="k-plain-num", desc={"dt": dt}, sig=[("s", "s")],
                        pre=["len(s) <= %d" % (4 if tier == "quick" else 5)], budget=big))
    for dt in ("integer", "decimal"):
        obs.append(dict(oid="K/plain-num-any-text/%s" % dt, family="k-plain-num", desc={"dt": dt, "any_text": True}, sig=[("s", "s")],
                        pre=["len(s) <= %d" % (3 if tier == "quick" else 4)], budget=big))
    obs.append(dict(oid="R/shorthand-guards<=Turtle-numeric-tokens", family="regex-inclusion", runner="custom", desc={"name": "shorthand-guards"},
                    sig=[], budget=120))
    return obs


def bounds(tier):
    n = 3 if tier == "quick" else 4
    return {"k-nt-writer": "every string of length <= %d" % n, "k-ttl-roundtrip": "every string of length <= %d, followed by 3-5 continuations" % n,
            "k-ttl-roundtrip-long": "newline + every string of length <= %d (long quoting branch)" % (n - 1),
            "k-xml-text": "every string of length <= %d" % n,
            "k-plain-num": "every lexical form of length <= %d valid for xsd:integer / decimal / boolean through the Turtle shorthand writer, "
                           "re-typed by the reader's numeric patterns" % (4 if tier == "quick" else 5),
            "s-list-jsonld / s-list-turtle": "engine S on the list-detection code: rdf:first/rdf:rest chains of 2-3 (thorough 1-4) concrete cells with "
                                             "symbolic members (falsy, duplicates) and 6 defects by shape; jsonld.Converter.to_collection returns exactly the "
                                             "members or declines, never a list for a malformed chain; Turtle/LongTurtle isValidList never accepts a malformed chain",
            "regex-inclusion": "unbounded string length: every text accepted by a regex guard of Literal._literal_n3 (as applied there: match or "
                               "fullmatch, `$` tolerating a final newline under match) is a Turtle INTEGER resp. DECIMAL token",
            "outside": "whole documents, blank-node inlining, subject ordering, qname splitting, RDF/XML, longer strings, double/float shorthand"}


def finding_key(ob, cex, reason):
    return "%s|%s" % (ob["family"], reason)
