"""C17 — prefix bindings stay a consistent two-way map and compact IRIs expand back (engines S + K; partial)."""
import itertools
import random

from rdflib import Graph, URIRef
from rdflib.namespace import NamespaceManager, get_longest_namespace, insert_trie, is_ncname, split_uri
from rdflib.plugins.stores.memory import Memory, SimpleMemory

PROPERTY = "C17"
FUNCTIONS = [
    "rdflib.plugins.stores.memory.Memory.bind / prefix / namespace / namespaces", "rdflib.plugins.stores.memory.SimpleMemory.bind / ...",
    "rdflib.namespace.insert_trie", "rdflib.namespace.get_longest_namespace", "rdflib.namespace.split_uri", "rdflib.namespace.is_ncname",
    "rdflib.namespace.NamespaceManager.bind / _store_bind / qname / curie / compute_qname / compute_qname_strict / expand_curie / namespaces",
]
STUBS = ["store-level bind: prefixes and namespaces are opaque constant-hash tokens (identity = symbolic int)",
         "trie: strings are wrapped in a constant-hash object exposing __eq__, __len__, startswith so that the real nested-dict code "
         "runs on symbolic strings"]
ASSUMPTIONS = ["store-level bind with override=False is only exercised under the calling discipline of NamespaceManager.bind (prefix unbound "
               "or bound to that namespace, namespace unbound)",
               "split_uri / is_ncname: alphabet aB1_-./# (full Unicode category scans do not conclude; %, ( and ) are accepted in local names by design and excluded)",
               "NamespaceManager-level histories use a concrete pool of 2 prefixes x 4 nested/overlapping namespaces; only the choice of "
               "pool element and the override/replace flags are symbolic (shape-symbolic: enumeration by the solver, supplement only)",
               "outside: prefixes minted while parsing / serialising documents"]


def untraced():
    return []  # NamespaceManager is the code under test here: keep it traced


class Tok:
    __slots__ = ("k",)

    def __init__(self, k):
        self.k = k

    def __eq__(self, o):
        if o is self:
            return True
        if type(o) is not Tok:
            return False
        if self.k == o.k:
            return True
        return False

    def __ne__(self, o):
        return not self.__eq__(o)

    def __hash__(self):
        return 0

    def __bool__(self):
        # identity 0 stands for the falsy token (the empty prefix "")
        if self.k != 0:
            return True
        return False


def _two_way(store):
    pairs = list(store.namespaces())
    for i, (p, n) in enumerate(pairs):
        for j, (p2, n2) in enumerate(pairs):
            if i < j and p == p2:
                return "namespaces() lists a prefix twice"
            if i < j and n == n2:
                return "namespaces() lists a namespace twice"
        if store.namespace(p) != n:
            return "namespace(prefix) disagrees with namespaces()"
        if store.prefix(n) != p:
            return "prefix(namespace) disagrees with namespaces()"
    return None


def body_store_bind(desc, F, *args):
    store = {"Memory": Memory, "SimpleMemory": SimpleMemory}[desc["store"]]()
    k = desc["k"]
    for i in range(k):
        p, n, ov = Tok(args[3 * i]), Tok(args[3 * i + 1]), args[3 * i + 2]
        if not ov:
            bn = store.namespace(p)
            if not (bn is None or bn == n) or store.prefix(n) is not None:
                return None  # NamespaceManager never makes this call
        store.bind(p, n, override=bool(ov))
        r = _two_way(store)
        if r:
            return "after bind #%d: %s" % (i + 1, r)
        if ov:
            if store.namespace(p) != n or store.prefix(n) != p:
                return "bind(override=True) did not establish the binding"
    return None


class WStr:
    __slots__ = ("s",)

    def __init__(self, s):
        self.s = s

    def __eq__(self, o):
        if o is self:
            return True
        if type(o) is not WStr:
            return False
        if self.s == o.s:
            return True
        return False

    def __ne__(self, o):
        return not self.__eq__(o)

    def __hash__(self):
        return 0

    def __len__(self):
        return len(self.s)

    def startswith(self, o):
        return self.s.startswith(o.s if type(o) is WStr else o)


ALPHA = "ab/#"


def body_trie(desc, F, *args):
    n = desc["n"]
    nss = list(args[:n])
    u = args[n]
    for s in nss + [u]:
        for c in s:
            if c not in ALPHA:
                return None
    for s in nss:
        if len(s) == 0:
            return None
    trie = {}
    for s in nss:
        insert_trie(trie, WStr(s))
    got = get_longest_namespace(trie, WStr(u))
    best = None
    for s in nss:
        if u.startswith(s) and (best is None or len(s) > len(best)):
            best = s
    if best is None:
        if got is not None:
            return "lookup returns a namespace that is not a prefix of the IRI"
        return None
    if got is None:
        return "lookup misses an inserted namespace that prefixes the IRI"
    if got.s != best:
        return "lookup does not return the longest inserted namespace"
    return None


SPLIT_ALPHA = "aB1_-./#"   # '%', '(' and ')' are deliberately accepted in local names by rdflib and left out
NAME_START = "aB_"          # XML NCName start
SPLIT_START = "aB_1"        # split_uri also lets a local name start with a digit (Turtle PN_LOCAL)
NAME_CHAR = "aB1_-."


def body_split(desc, F, u):
    for c in u:
        if c not in SPLIT_ALPHA:
            return None
    if len(u) == 0 or u[0] not in "aB":
        return None  # IRIs start with a scheme letter (for other strings split_uri's inner scan wraps around: outside the property)
    try:
        ns, ln = split_uri(u)
    except ValueError:
        # no split: there must be no admissible split point
        k = None
        for i in range(len(u)):
            if u[i] not in NAME_CHAR:
                k = i
        if k is None:
            return None
        for j in range(k + 1, len(u)):
            if u[j] in SPLIT_START:
                return "split_uri raises although %r has a local-name start after the last non-name character" % "split point"
        return None
    if ns + ln != u:
        return "namespace + local name is not the IRI"
    if len(ns) == 0 or len(ln) == 0:
        return "empty namespace or local name"
    if ln[0] not in SPLIT_START:
        return "local name does not start with a name-start character or digit"
    for c in ln:
        if c not in NAME_CHAR:
            return "local name contains a non-name character"
    if ns[len(ns) - 1] in NAME_CHAR:
        # the namespace may only end in a name character if that character cannot start a name (digits, '-', '.')
        pass
    return None


def body_ncname(desc, F, s):
    for c in s:
        if c not in SPLIT_ALPHA:
            return None
    want = len(s) > 0 and s[0] in NAME_START
    if want:
        for c in s:
            if c not in NAME_CHAR:
                want = False
    if bool(is_ncname(s)) != want:
        return "is_ncname disagrees with the XML NCName definition"
    return None


PREFIXES = ["", "a"]
NSS = ["http://x/", "http://x/y#", "http://x/y/", "http://x/y/i-"]   # nested, overlapping, ending in / # or neither
LOCALS = ["n", "y"]


def body_manager(desc, F, *args):
    """histories of NamespaceManager.bind interleaved with qname computations; pool element choices and flags symbolic"""
    g = Graph(bind_namespaces="none")
    nm = g.namespace_manager
    store = g.store
    i = 0

    def pick(pool, x):
        for j, v in enumerate(pool):
            if x == j:
                return v
        return None

    for step in desc["steps"]:
        if step == "bind":
            p, n = pick(PREFIXES, args[i]), pick(NSS, args[i + 1])
            ov, rp = args[i + 2], args[i + 3]
            i += 4
            if p is None or n is None:
                return None
            nm.bind(p, URIRef(n), override=bool(ov), replace=bool(rp))
            r = _two_way(store)
            if r:
                return "after bind: %s" % r
        else:
            if step == "again":
                step, iri = last
            else:
                n, loc = pick(NSS, args[i]), pick(LOCALS, args[i + 1])
                i += 2
                if n is None or loc is None:
                    return None
                iri = URIRef(n + loc)
            last = (step, iri)
            bound = dict((str(pp), str(nn)) for pp, nn in store.namespaces())
            try:
                if step == "qname":
                    q = nm.qname(iri)
                elif step == "curie":
                    q = nm.curie(iri, generate=False)
                elif step == "compute":
                    q = ":".join(x for x in nm.compute_qname(iri, generate=False)[::2])
                elif step == "n3":
                    q = nm.normalizeUri(iri)       # what URIRef.n3(namespace_manager) returns
                    if q.startswith("<"):
                        if q != "<%s>" % iri:
                            return "n3() writes a different IRI"
                        continue
                else:
                    raise AssertionError(step)
            except (KeyError, ValueError):
                continue  # nothing bound for it: allowed
            pfx, _, local = q.rpartition(":")
            now = dict((str(pp), str(nn)) for pp, nn in store.namespaces())
            if pfx not in now:
                return "%s() uses the prefix %r, which is not bound at that moment" % (step, pfx)
            if now[pfx] + local != str(iri):
                return "%s() result does not expand back to the IRI" % step
            try:
                back = nm.expand_curie(q if pfx else ":" + local)
            except Exception:
                back = None
            if back is not None and str(back) != str(iri):
                return "expand_curie(%s()) is a different IRI" % step
    return None


BODIES = {"store-bind": body_store_bind, "trie": body_trie, "split": body_split, "ncname": body_ncname, "manager": body_manager}


def obligations(tier, seed):
    rnd = random.Random(seed)
    obs = []
    for store in ("Memory", "SimpleMemory"):
        for k in ((1, 2, 3) if tier == "quick" else (1, 2, 3, 4)):
            sig = []
            for i in range(k):
                sig += [("p%d" % i, "i"), ("n%d" % i, "i"), ("o%d" % i, "b")]
            obs.append(dict(oid="store-bind/%s/k=%d" % (store, k), family="store-bind", desc={"store": store, "k": k}, sig=sig,
                            budget=300 if k < 4 else 2000))
    for n in ((1, 2) if tier == "quick" else (1, 2, 3)):
        ln, lu = (3, 4) if n < 3 else (2, 3)
        sig = [("s%d" % i, "s") for i in range(n)] + [("u", "s")]
        pre = ["len(s%d) <= %d" % (i, ln) for i in range(n)] + ["len(u) <= %d" % lu]
        obs.append(dict(oid="trie/n=%d" % n, family="trie", desc={"n": n}, sig=sig, pre=pre, budget=600 if tier == "quick" else 3000))
    m = 3 if tier == "quick" else 4
    obs.append(dict(oid="split_uri/len<=%d" % m, family="split", desc={}, sig=[("u", "s")], pre=["len(u) <= %d" % m], budget=600 if tier == "quick" else 3000))
    obs.append(dict(oid="is_ncname/len<=%d" % m, family="ncname", desc={}, sig=[("s", "s")], pre=["len(s) <= %d" % m], budget=600 if tier == "quick" else 3000))
    # manager-level, shape-symbolic
    seqs = [["bind", "qname"], ["bind", "bind", "qname"], ["bind", "qname", "bind", "again"], ["bind", "curie", "bind", "again"],
            ["bind", "compute", "bind", "again"], ["bind", "bind"], ["bind", "bind", "n3"], ["bind", "n3", "bind", "again"]]
    if tier == "thorough":
        seqs += [["bind", "bind", "bind"], ["bind", "qname", "bind", "bind", "again"]]
    for steps in seqs:
        sig, pre = [], []
        j = 0
        for s in steps:
            if s == "again":
                continue
            if s == "bind":
                sig += [("x%d" % j, "i"), ("x%d" % (j + 1), "i"), ("x%d" % (j + 2), "b"), ("x%d" % (j + 3), "b")]
                pre += ["0 <= x%d < %d" % (j, len(PREFIXES)), "0 <= x%d < %d" % (j + 1, len(NSS))]
                j += 4
            else:
                sig += [("x%d" % j, "i"), ("x%d" % (j + 1), "i")]
                pre += ["0 <= x%d < %d" % (j, len(NSS)), "0 <= x%d < %d" % (j + 1, len(LOCALS))]
                j += 2
        obs.append(dict(oid="manager/%s" % "-".join(steps), family="manager", desc={"steps": steps}, sig=sig, pre=pre,
                        budget=900 if tier == "quick" else 3000))
    return obs


def bounds(tier):
    return {"store-bind": "Memory.bind / SimpleMemory.bind with opaque symbolic prefix/namespace tokens, k<=%d binds, override symbolic"
                          % (3 if tier == "quick" else 4),
            "trie": "insert_trie + get_longest_namespace on symbolic strings over {a,b,/,#}: <=2 namespaces of length<=3 and an IRI of "
                    "length<=4%s" % ("" if tier == "quick" else "; 3 namespaces of length<=2, IRI<=3"),
            "split / ncname": "split_uri and is_ncname on every string of length <= %d over aB1_-./#" % (3 if tier == "quick" else 4),
            "manager": "shape-symbolic: NamespaceManager.bind (override/replace flags symbolic, 2 prefixes x 4 namespaces by symbolic index) "
                       "interleaved with qname / curie / compute_qname on pool IRIs",
            "outside": "prefixes minted by parsers/serializers, other scripts than the stated alphabet, longer histories"}


def finding_key(ob, cex, reason):
    import re
    return "%s|%s" % (ob["family"], re.sub(r"#\d+", "#N", reason))
