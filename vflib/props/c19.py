"""C19 — an RDF Collection behaves like the Python list it represents (engine S).

Shape: start length, sequence of operation kinds.  Content: members (SymIntLit: identity and
truthiness symbolic, so 0/false/"" is the k=0 case; duplicates are the solver's choice) and
indices (symbolic ints, 0 <= i <= max possible length + 1).
"""
import itertools
import random

from rdflib import BNode, Graph, RDF
from rdflib.collection import Collection

PROPERTY = "C19"
FUNCTIONS = [
    "rdflib.collection.Collection.__init__", "rdflib.collection.Collection.append", "rdflib.collection.Collection.__iadd__",
    "rdflib.collection.Collection.__getitem__", "rdflib.collection.Collection.__setitem__",
    "rdflib.collection.Collection.__delitem__", "rdflib.collection.Collection.__len__", "rdflib.collection.Collection.__iter__",
    "rdflib.collection.Collection.index", "rdflib.collection.Collection.clear", "rdflib.collection.Collection._get_container",
    "rdflib.collection.Collection._end", "rdflib.graph.Graph.items", "rdflib.graph.Graph.value", "rdflib.graph.Graph.set",
]
ASSUMPTIONS = ["list cells are the concrete blank nodes rdflib itself creates; negative indices are outside the claim "
               "(the property does not say Collections support them)",
               "where the list raises ValueError (index() of an absent item) any exception is accepted; where it raises "
               "IndexError the Collection must raise IndexError"]

MUT = ["append", "iadd0", "iadd1", "iadd2", "iaddself", "set", "del", "clear"]
READ = ["get", "index", "in"]
NARGS = {"append": 1, "iadd0": 0, "iadd1": 1, "iadd2": 2, "iaddself": 0, "set": 2, "del": 1, "clear": 0, "get": 1, "index": 1, "in": 1}
ISIDX = {"set": [0], "del": [0], "get": [0]}


class Diverged(Exception):
    pass


class CountingGraph(Graph):
    """Graph whose triples() raises after a step budget: turns divergence into a verdict."""

    budget = 400

    def triples(self, triple):
        self.budget -= 1
        if self.budget < 0:
            raise Diverged()
        return super().triples(triple)


def _wellformed(g, head, n):
    """exactly the triples of an n-cell chain from head to rdf:nil, nothing else"""
    trs = list(g)
    if n == 0:
        # an empty Collection is a head node without cells
        if len(trs) != 0:
            return "empty list but %d leftover triples in the graph" % len(trs)
        return None
    if len(trs) != 2 * n:
        return "graph has %d triples for a list of %d members (orphaned or missing cells)" % (len(trs), n)
    cell = head
    for j in range(n):
        firsts = [o for s, p, o in trs if s == cell and p == RDF.first]
        rests = [o for s, p, o in trs if s == cell and p == RDF.rest]
        if len(firsts) != 1:
            return "cell %d has %d rdf:first values" % (j, len(firsts))
        if len(rests) != 1:
            return "cell %d has %d rdf:rest values" % (j, len(rests))
        cell = rests[0]
    if cell != RDF.nil:
        return "chain does not end in rdf:nil"
    return None


def _same_list(got, exp):
    if len(got) != len(exp):
        return False
    for a, b in zip(got, exp):
        if a is b:
            continue
        if not (a == b):
            return False
    return True


def _do(fn):
    try:
        return ("ok", fn())
    except IndexError:
        return ("IndexError", None)
    except Diverged:
        return ("diverged", None)
    except ValueError:
        return ("ValueError", None)
    except Exception as e:
        return (type(e).__name__, None)


def _cmp(kind, got, exp):
    """got/exp: (status, value)"""
    if got[0] == "diverged":
        return "%s does not terminate" % kind
    if exp[0] == "ok":
        if got[0] != "ok":
            return "%s raises %s where the list returns normally" % (kind, got[0])
        return None
    if exp[0] == "IndexError":
        if got[0] != "IndexError":
            return "%s: list raises IndexError, Collection %s" % (kind, "returns normally" if got[0] == "ok" else "raises " + got[0])
        return None
    # ValueError in the list: any exception is fine
    if got[0] == "ok":
        return "%s returns normally where the list raises %s" % (kind, exp[0])
    return None


def body_list(desc, F, *args):
    g = CountingGraph()
    head = BNode()
    n0 = desc["n0"]
    model = [F.lit(args[i]) for i in range(n0)]
    c = Collection(g, head, list(model))
    a = n0
    r = _wellformed(g, head, len(model))
    if r:
        return "after construction: " + r
    for kind in desc["ops"]:
        xs = args[a:a + NARGS[kind]]
        a += NARGS[kind]
        if kind == "append":
            m = F.lit(xs[0])
            got = _do(lambda: c.append(m))
            exp = _do(lambda: model.append(m))
        elif kind == "iadd1":
            m = F.lit(xs[0])
            got = _do(lambda: c.__iadd__([m]))
            exp = _do(lambda: model.extend([m]))
        elif kind == "iadd2":
            m1, m2 = F.lit(xs[0]), F.lit(xs[1])
            got = _do(lambda: c.__iadd__([m1, m2]))
            exp = _do(lambda: model.extend([m1, m2]))
        elif kind == "iadd0":
            got = _do(lambda: c.__iadd__([]))
            exp = _do(lambda: model.extend([]))
        elif kind == "iaddself":
            g.budget = 400
            got = _do(lambda: c.__iadd__(c))
            exp = _do(lambda: model.extend(list(model)))
        elif kind == "set":
            i, m = xs[0], F.lit(xs[1])
            if desc.get("skip_set_at_len") and i == len(model):
                return None  # residual check: the recorded finding (c[len(c)] = x) is excluded from the inputs
            got = _do(lambda: c.__setitem__(i, m))
            exp = _do(lambda: model.__setitem__(i, m))
        elif kind == "del":
            i = xs[0]
            got = _do(lambda: c.__delitem__(i))
            exp = _do(lambda: model.__delitem__(i))
        elif kind == "clear":
            got = _do(lambda: c.clear())
            exp = _do(lambda: model.clear())
        elif kind == "get":
            i = xs[0]
            got = _do(lambda: c[i])
            exp = _do(lambda: model[i])
            r = _cmp("c[i]", got, exp)
            if r:
                return r
            if exp[0] == "ok" and not (got[1] is exp[1] or got[1] == exp[1]):
                return "c[i] returns a different member than the list"
            continue
        elif kind == "index":
            m = F.lit(xs[0])
            got = _do(lambda: c.index(m))
            exp = _do(lambda: model.index(m))
            r = _cmp("index(x)", got, exp)
            if r:
                return r
            if exp[0] == "ok" and got[1] != exp[1]:
                return "index(x) differs from the list"
            continue
        elif kind == "in":
            m = F.lit(xs[0])
            got = _do(lambda: m in c)
            exp = _do(lambda: m in model)
            r = _cmp("x in c", got, exp)
            if r:
                return r
            if got[1] != exp[1]:
                return "membership differs from the list"
            continue
        else:
            raise AssertionError(kind)
        r = _cmp(kind, (got[0], None), (exp[0], None))
        if r:
            return r
        g.budget = 400
        r = _wellformed(g, head, len(model))
        if r:
            return "after %s: %s" % (kind, r)
        got = _do(lambda: len(c))
        if got != ("ok", len(model)):
            return "len differs after %s" % kind
        got = _do(lambda: list(c))
        if got[0] != "ok" or not _same_list(got[1], model):
            return "iteration differs from the list after %s" % kind
    return None


def body_broken(desc, F, *args):
    """reads on cyclic / truncated chains must raise or return, not loop"""
    g = CountingGraph()
    cells = [BNode("c0"), BNode("c1"), BNode("c2")]
    n = desc["cells"]
    ms = [F.lit(args[i]) for i in range(n)]
    for j in range(n):
        g.add((cells[j], RDF.first, ms[j]))
        if j + 1 < n:
            g.add((cells[j], RDF.rest, cells[j + 1]))
    back = args[n]
    x = F.lit(args[n + 1])
    i = args[n + 2]
    if desc["kind"] == "cycle":
        tgt = None
        for j in range(n):
            if back == j:
                tgt = cells[j]
        if tgt is None:
            return None
        g.add((cells[n - 1], RDF.rest, tgt))
    # truncated: last cell has no rdf:rest at all
    c = Collection(g, cells[0])
    for name, fn in (("len", lambda: len(c)), ("list", lambda: list(c)), ("c[i]", lambda: c[i]),
                     ("index", lambda: c.index(x)), ("in", lambda: x in c)):
        if name not in desc["reads"]:
            continue
        g.budget = 200
        got = _do(fn)
        if got[0] == "diverged":
            return "%s on a %s chain does not terminate" % (name, desc["kind"])
    return None


BODIES = {"list": body_list, "broken": body_broken}


def _mk(n0, ops):
    sig = [("m%d" % i, "i") for i in range(n0)]
    pre = []
    maxlen = n0
    j = 0
    for kind in ops:
        for t in range(NARGS[kind]):
            name = "a%d" % j
            j += 1
            sig.append((name, "i"))
            if t in ISIDX.get(kind, []):
                pre.append("0 <= %s <= %d" % (name, maxlen + 1))
        if kind in ("append", "iadd1"):
            maxlen += 1
        elif kind == "iadd2":
            maxlen += 2
        elif kind == "iaddself":
            maxlen *= 2
    return sig, pre


def obligations(tier, seed):
    rnd = random.Random(seed)
    obs = []

    def add(n0, ops, budget):
        sig, pre = _mk(n0, ops)
        obs.append(dict(oid="list/%d/%s" % (n0, "-".join(ops)), family="list", desc={"n0": n0, "ops": list(ops)},
                        sig=sig, pre=pre, budget=budget))

    n0s = (0, 1, 2) if tier == "quick" else (0, 1, 2, 3)
    for n0 in n0s:
        for op in MUT + READ:
            add(n0, (op,), 120)
        two = [(a, b) for a in MUT for b in MUT + READ]
        if tier == "quick" and n0 == 2:
            two = [t for t in two if "iadd2" not in t]
        if n0 == 3:
            two = rnd.sample(two, 24)
        for ops in two:
            add(n0, ops, 200 if tier == "quick" else 500)
    k3 = [(a, b, c) for a in MUT for b in MUT for c in MUT + READ]
    for n0 in (0, 1, 2):
        for ops in rnd.sample(k3, 10 if tier == "quick" else 120):
            if tier == "quick" and (n0 == 2 or sum(NARGS[o] for o in ops) > 4):
                continue
            add(n0, ops, 200 if tier == "quick" else 700)
    for kind in ("cycle", "truncated"):
        for n in (1, 2, 3):
            for reads in (["len", "list", "in"], ["c[i]"], ["index"]):
                obs.append(dict(oid="broken/%s/%d/%s" % (kind, n, "+".join(reads)), family="broken",
                                desc={"kind": kind, "cells": n, "reads": reads},
                                sig=[("m%d" % i, "i") for i in range(n)] + [("back", "i"), ("x", "i"), ("i", "i")],
                                pre=["0 <= back < %d" % n, "0 <= i <= %d" % (n + 2)], budget=120))
    return obs


def bounds(tier):
    return {"list": "start length 0-%d, every sequence of <=2 operations whose first is a mutation (8 mutations incl. += [], += [x], += [x, y], c += c; 3 reads), "
                    "seeded sample of 3-operation sequences; members and indices symbolic; after every mutation: exception "
                    "class vs. list, well-formed chain, len and iteration" % (2 if tier == "quick" else 3),
            "broken": "cyclic (symbolic back edge) and truncated chains of 1-3 cells; reads must finish within 200 Graph.triples calls",
            "outside": "negative indices, slices, lists longer than 6"}


def finding_key(ob, cex, reason):
    import re
    if ob["desc"].get("skip_set_at_len"):
        return "%s|residual|%s" % (ob["family"], re.sub(r"\d+", "N", reason))
    return "%s|%s" % (ob["family"], re.sub(r"\d+", "N", reason))


def residual(ob):
    """obligations containing an item assignment hit the recorded finding 'c[len(c)] = x does not raise';
    re-check them with exactly that input (index == current length) excluded"""
    if ob["family"] == "list" and "set" in ob["desc"]["ops"] and not ob["desc"].get("skip_set_at_len"):
        o2 = dict(ob)
        o2["desc"] = dict(ob["desc"], skip_set_at_len=True)
        return o2
    return None
