"""C01 — a Graph is exactly the set its history implies (engine S).

Shape (enumerated): store class, sequence of operation kinds, which harness family.
Content (symbolic): every term of every operation and of the probe triple (unbounded ints).
"""
import itertools
import random

from rdflib import Graph, URIRef
from rdflib.plugins.stores.memory import Memory, SimpleMemory

from ..model import (SHAPES8, dedup, match, pat_of, same_set, set_add, set_remove, teq, tin)

PROPERTY = "C01"
FUNCTIONS = [
    "rdflib.graph.Graph.add", "rdflib.graph.Graph.addN", "rdflib.graph.Graph.remove",
    "rdflib.graph.Graph.set", "rdflib.graph.Graph.triples", "rdflib.graph.Graph.__len__",
    "rdflib.graph.Graph.__contains__", "rdflib.graph.Graph.__iter__", "rdflib.graph.Graph.__iadd__",
    "rdflib.graph.Graph.__isub__", "rdflib.graph.Graph.__add__", "rdflib.graph.Graph.__sub__",
    "rdflib.graph.Graph.__mul__", "rdflib.graph.Graph.__xor__",
    "rdflib.plugins.stores.memory.Memory.add", "rdflib.plugins.stores.memory.Memory.remove",
    "rdflib.plugins.stores.memory.Memory.triples", "rdflib.plugins.stores.memory.Memory.__len__",
    "rdflib.plugins.stores.memory.SimpleMemory.add", "rdflib.plugins.stores.memory.SimpleMemory.remove",
    "rdflib.plugins.stores.memory.SimpleMemory.triples", "rdflib.plugins.stores.memory.SimpleMemory.__len__",
    "rdflib.store.Store.addN",
]
STORES = {"Memory": Memory, "SimpleMemory": SimpleMemory}
KINDS = ["add"] + ["rm" + b for b in SHAPES8] + ["set", "iadd", "isub", "addN"]
CORE_KINDS = ["add", "rm000", "rm011", "rm101", "rm110", "rm111", "set"]


def _triple(F, args, i):
    return (F.node(args[3 * i]), F.node(args[3 * i + 1]), F.node(args[3 * i + 2]))


def _apply(g, model, kind, t):
    if kind == "add":
        g.add(t)
        return set_add(model, t)
    if kind == "addN":
        g.addN([(t[0], t[1], t[2], g)])
        return set_add(model, t)
    if kind == "iadd":
        g += [t]
        return set_add(model, t)
    if kind == "isub":
        g -= [t]
        return set_remove(model, t)
    if kind == "set":
        g.set(t)
        return set_add(set_remove(model, (t[0], t[1], None)), t)
    if kind.startswith("rm"):
        pat = pat_of(kind[2:], t)
        g.remove(pat)
        return set_remove(model, pat)
    raise AssertionError(kind)


def _observe(g, model, q, shapes=SHAPES8):
    for bits in shapes:
        pat = pat_of(bits, q)
        got = list(g.triples(pat))
        exp = [t for t in model if match(pat, t)]
        if not same_set(got, exp):
            return "triples(%s) differs from the set model" % bits
    if len(g) != len(model):
        return "len differs"
    if (q in g) != tin(q, model):
        return "membership differs"
    if not same_set(list(g), model):
        return "iteration differs"
    return None


def body_history(desc, F, *args):
    g = Graph(store=STORES[desc["store"]]())
    model = []
    kinds = desc["ops"]
    for i, kind in enumerate(kinds):
        model = _apply(g, model, kind, _triple(F, args, i))
    if desc.get("observe") == "light":
        # no probe triple: content as a whole (iteration and len) against the model
        if len(g) != len(model):
            return "len differs"
        if not same_set(list(g), model):
            return "iteration differs"
        return None
    return _observe(g, model, _triple(F, args, len(kinds)))


def _mk(F, desc, args, off, n):
    g = Graph(store=STORES[desc["store"]]())
    m = []
    for i in range(n):
        t = _triple(F, args, off + i)
        g.add(t)
        m = set_add(m, t)
    return g, m


def body_binop(desc, F, *args):
    na, nb = desc["na"], desc["nb"]
    a, ma = _mk(F, desc, args, 0, na)
    b, mb = _mk(F, desc, args, na, nb)
    op = desc["op"]
    if op == "+":
        r = a + b
        exp = dedup(ma + mb)
    elif op == "-":
        r = a - b
        exp = [t for t in ma if not tin(t, mb)]
    elif op == "*":
        r = a * b
        exp = [t for t in ma if tin(t, mb)]
    elif op == "^":
        r = a ^ b
        exp = [t for t in ma if not tin(t, mb)] + [t for t in mb if not tin(t, ma)]
    else:
        raise AssertionError(op)
    if not same_set(list(r), exp):
        return "result of %s differs from the set operation" % op
    if len(r) != len(exp):
        return "len of result differs"
    if not same_set(list(a), ma) or not same_set(list(b), mb):
        return "operand changed by %s" % op
    q = _triple(F, args, na + nb)
    if (q in r) != tin(q, exp):
        return "membership in result differs"
    return None


def body_itermut(desc, F, *args):
    """Memory only: open triples(pattern), interleave next() with mutations."""
    g = Graph(store=Memory())
    n = desc["n"]
    model = []
    for i in range(n):
        t = _triple(F, args, i)
        g.add(t)
        model = set_add(model, t)
    q = _triple(F, args, n)
    pat = pat_of(desc["pat"], q)
    ever = list(model)
    it = g.triples(pat)
    j = n + 1
    for step in desc["sched"]:
        if step == "next":
            try:
                t = next(it)
            except StopIteration:
                break
            if not match(pat, t):
                return "iterator yielded a triple that does not match the pattern"
            if not tin(t, ever):
                return "iterator yielded a triple never in the graph since it was opened"
        else:
            t = _triple(F, args, j)
            j += 1
            model = _apply(g, model, step, t)
            for u in model:
                ever = set_add(ever, u)
    # the graph itself must still be the model
    if not same_set(list(g), model):
        return "graph differs from model after iterating while mutating"
    return None


BODIES = {"history": body_history, "binop": body_binop, "itermut": body_itermut}


def _sig(n):
    return [("x%d" % i, "i") for i in range(n)]


def obligations(tier, seed):
    rnd = random.Random(seed)
    obs = []

    def hist(store, ops, budget, light=False):
        obs.append(dict(
            oid="hist%s/%s/%s" % ("-light" if light else "", store, "-".join(ops)), family="history",
            desc={"store": store, "ops": list(ops), "observe": "light" if light else "full"},
            sig=_sig(3 * (len(ops) + (0 if light else 1))), budget=budget))

    for store in STORES:
        for k in (1, 2):
            for ops in itertools.product(KINDS, repeat=k):
                if k == 2 and ops[0] != "add" and ops[0] not in ("set", "iadd", "addN"):
                    # a remove on the empty graph first: covered by k=1 plus the second op alone
                    continue
                hist(store, ops, 120)
        k3 = [("add",) + r for r in itertools.product(KINDS, repeat=2)]
        grow = ("add", "set", "iadd", "addN")
        if tier == "quick":
            # k=3 histories that end with three triples cost ~200 s CPU each: thorough tier only
            cheap = [o for o in k3 if not (o[1] in grow and o[2] in grow)]
            core = [o for o in cheap if o[1] in CORE_KINDS and o[2] in CORE_KINDS]
            rest = [o for o in cheap if o not in core]
            sel = core + rnd.sample(rest, 12)
            # ... but they are checked with the light observation (whole content, no probe patterns), which is cheap
            for o in k3:
                if o[1] in grow and o[2] in grow:
                    hist(store, o, 200, light=True)
        else:
            sel = k3
        for ops in sel:
            hist(store, ops, 200 if tier == "quick" else 1500)
        if tier == "thorough":
            k4 = [("add", "add") + r for r in itertools.product(CORE_KINDS, repeat=2)] + \
                 [("add",) + r for r in itertools.product(CORE_KINDS[1:], repeat=3)]
            for ops in rnd.sample(k4, 40 if store == "Memory" else 20):
                hist(store, ops, 2500)
    # binary operators
    for store in STORES:
        sizes = [(1, 1), (2, 1), (1, 2), (2, 2)] if tier == "quick" else [(1, 1), (2, 1), (1, 2), (2, 2), (3, 1), (1, 3)]
        for op in "+-*^":
            for na, nb in sizes:
                if tier == "quick" and na + nb > 3 and (store == "SimpleMemory" or op in "+^"):
                    continue
                obs.append(dict(oid="binop/%s/%s/%d-%d" % (store, op, na, nb), family="binop",
                                desc={"store": store, "op": op, "na": na, "nb": nb},
                                sig=_sig(3 * (na + nb + 1)), budget=300 if na + nb < 4 else 2000))
    # iteration while mutating (Memory)
    muts = ["add", "rm000", "rm011", "rm110", "rm111"] if tier == "quick" else ["add"] + ["rm" + b for b in SHAPES8]
    scheds = []
    for m1 in muts:
        scheds.append([m1, "next", "next", "next"])
        scheds.append(["next", m1, "next", "next"])
    if tier == "thorough":
        for m1, m2 in itertools.product(muts, repeat=2):
            scheds.append(["next", m1, "next", m2, "next"])
            scheds.append([m1, "next", m2, "next", "next"])
        scheds = scheds[:18] + rnd.sample(scheds[18:], 40)
    pats = SHAPES8 if tier == "thorough" else ["000", "011", "101", "110", "111"]
    for pat in pats:
        for sc in scheds:
            nm = sum(1 for s in sc if s != "next")
            obs.append(dict(oid="itermut/%s/%s" % (pat, "-".join(sc)), family="itermut",
                            desc={"n": 2, "pat": pat, "sched": sc},
                            sig=_sig(3 * (2 + 1 + nm)), budget=300))
    return obs


def bounds(tier):
    return {
        "history": "every op-kind sequence with k<=2 (13 kinds), k=3 starting with add (%s), %s; 2 stores; terms unbounded"
        % ("with a remove among ops 2-3: core kinds + 12 seeded, full observation; three growing ops: all 16, whole-content observation only" if tier == "quick" else "all 169", "no k=4" if tier == "quick" else "k=4 seeded sample of 60"),
        "binop": "operands of <=2 symbolic triples (thorough: <=3)",
        "itermut": "n=2 symbolic triples, <=1 mutation (thorough: <=2) among <=3 next() calls, Memory store",
        "outside": "longer histories, quoted/formula contexts, BerkeleyDB, more than 4 triples in the graph",
    }


def finding_key(ob, cex, reason):
    return "%s|%s" % (ob["family"], reason)
