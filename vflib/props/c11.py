"""C11 — property paths denote the relation SPARQL defines (engine S).

Shape: path expression, predicate of each edge, which ends are bound, API used.
Content: edge end points and the bound terms (SymNode: identity + truthiness symbolic; the
bound term may or may not occur in the graph — the solver chooses).
"""
import itertools
import random

from rdflib import Graph, URIRef
from rdflib.paths import AlternativePath, InvPath, MulPath, NegatedPath, SequencePath

from ..model import dedup, same_set, teq, tin

PROPERTY = "C11"
FUNCTIONS = [
    "rdflib.paths.InvPath.eval", "rdflib.paths.SequencePath.eval", "rdflib.paths.AlternativePath.eval",
    "rdflib.paths.MulPath.eval", "rdflib.paths.NegatedPath.eval", "rdflib.paths.eval_path",
    "rdflib.graph.Graph.triples", "rdflib.graph.Graph.subjects", "rdflib.graph.Graph.objects",
    "rdflib.graph.Graph.subject_objects", "rdflib.plugins.stores.memory.Memory.triples",
]
ASSUMPTIONS = [
    "zero-length matches: exact for a *,? operator at the top of the path; where a nested *,? meets a given end term that does not "
    "occur in the graph the SPARQL algebra (join over an intermediate variable ranging over nodes(G)) and the relational reading "
    "(reflexive base = nodes(G) + given terms) differ, and any answer between the two is accepted",
    "multiplicity: sets are compared; absence of duplicates is demanded only for a *, + or ? at the top of the path (the spec gives "
    "bag semantics to / | ^ and negated sets)",
]
PRED = {"p": URIRef("urn:p"), "q": URIRef("urn:q"), "r": URIRef("urn:r")}


KNOWN_NEG_INV = [False]


class Diverged(Exception):
    pass


class CountingGraph(Graph):
    budget = 600

    def triples(self, triple):
        self.budget -= 1
        if self.budget < 0:
            raise Diverged()
        return super().triples(triple)


def build(ast):
    k = ast[0]
    if k == "iri":
        return PRED[ast[1]]
    if k == "inv":
        return InvPath(build(ast[1]))
    if k == "seq":
        return SequencePath(build(ast[1]), build(ast[2]))
    if k == "alt":
        return AlternativePath(build(ast[1]), build(ast[2]))
    if k == "mul":
        return MulPath(build(ast[1]), ast[2])
    if k == "neg":
        ms = [InvPath(PRED[m[1:]]) if m.startswith("^") else PRED[m] for m in ast[1]]
        return NegatedPath(ms[0] if len(ms) == 1 else AlternativePath(*ms))
    raise AssertionError(ast)


def show(ast):
    k = ast[0]
    if k == "iri":
        return ast[1]
    if k == "inv":
        return "^" + show(ast[1])
    if k == "seq":
        return "(%s/%s)" % (show(ast[1]), show(ast[2]))
    if k == "alt":
        return "(%s|%s)" % (show(ast[1]), show(ast[2]))
    if k == "mul":
        return show(ast[1]) + {"*": "*", "+": "+", "?": "?"}[ast[2]]
    if k == "neg":
        return "!(%s)" % "|".join(ast[1])
    raise AssertionError(ast)


def preds_of(ast):
    k = ast[0]
    if k == "iri":
        return {ast[1]}
    if k == "neg":
        return {m.lstrip("^") for m in ast[1]}
    out = set()
    for x in ast[1:]:
        if isinstance(x, list):
            out |= preds_of(x)
    return out


# ---- reference semantics: relations as duplicate-free lists of pairs ---------------------
def compose(r1, r2):
    out = []
    for a, b in r1:
        for c, d in r2:
            if b is c or b == c:
                if not tin((a, d), out):
                    out.append((a, d))
    return out


def union(r1, r2):
    out = list(r1)
    for x in r2:
        if not tin(x, out):
            out.append(x)
    return out


def rel(ast, edges, universe, steps):
    k = ast[0]
    if k == "iri":
        return dedup([(s, o) for s, p, o in edges if p == ast[1]])
    if k == "inv":
        return [(o, s) for s, o in rel(ast[1], edges, universe, steps)]
    if k == "seq":
        return compose(rel(ast[1], edges, universe, steps), rel(ast[2], edges, universe, steps))
    if k == "alt":
        return union(rel(ast[1], edges, universe, steps), rel(ast[2], edges, universe, steps))
    if k == "neg":
        fwd = [m for m in ast[1] if not m.startswith("^")]
        inv = [m[1:] for m in ast[1] if m.startswith("^")]
        if KNOWN_NEG_INV[0] and inv:
            # model of the recorded finding C11/negated-set-with-inverse-member (residual check only):
            # rdflib drops a forward triple (s,p,o) if p is a forward member or if (o,q,s) is in the
            # graph for an inverse member ^q, and never looks at reversed triples
            out = []
            for s, p, o in edges:
                if p in fwd:
                    continue
                if any(tin((o, q2, s), edges) for q2 in inv):
                    continue
                if not tin((s, o), out):
                    out.append((s, o))
            return out
        out = []
        if fwd or not inv:
            out = dedup([(s, o) for s, p, o in edges if p not in fwd])
        if inv:
            out = union(out, dedup([(o, s) for s, p, o in edges if p not in inv]))
        return out
    if k == "mul":
        base = rel(ast[1], edges, universe, steps)
        mod = ast[2]
        out = list(base)
        if mod in "*+":
            for _ in range(steps):
                nxt = union(out, compose(out, base))
                if len(nxt) == len(out):
                    break
                out = nxt
        if mod in "*?":
            out = union([(u, u) for u in universe], out)
        return out
    raise AssertionError(ast)


def restrict(r, x, y):
    out = []
    for s, o in r:
        if x is not None and not (s is x or s == x):
            continue
        if y is not None and not (o is y or o == y):
            continue
        out.append((s, o))
    return out


def body_path(desc, F, *args):
    KNOWN_NEG_INV[0] = bool(desc.get("model_known_neg_inv"))
    g = CountingGraph()
    members = None
    if desc.get("target") == "aggregate":
        # ReadOnlyGraphAggregate over two member graphs; edge number k lives in member k % 2
        from rdflib.graph import ReadOnlyGraphAggregate
        members = [CountingGraph(), CountingGraph()]
    edges = []
    i = 0
    for k, pn in enumerate(desc["edges"]):
        s, o = F.node(args[i]), F.node(args[i + 1])
        i += 2
        (members[k % 2] if members else g).add((s, PRED[pn], o))
        if not tin((s, pn, o), [(a, b, c) for a, b, c in edges]):
            edges.append((s, pn, o))
    x = y = None
    if desc["ends"][0] == "b":
        x = F.node(args[i])
        i += 1
    if desc["ends"][1] == "b":
        y = F.node(args[i])
        i += 1
    ast = desc["path"]
    path = build(ast)
    nodes = dedup([(s,) for s, _, o in edges] + [(o,) for s, _, o in edges])
    nodes = [n[0] for n in nodes]
    given = [t for t in (x, y) if t is not None]
    uni_hi = [n[0] for n in dedup([(n,) for n in nodes + given])]
    steps = 2 * len(edges) + 2
    hi = restrict(rel(ast, edges, uni_hi, steps), x, y)
    # lower bound: nested zero-length steps only over nodes(G); a top-level *,? also on the given terms
    lo_rel = rel(ast, edges, nodes, steps)
    if ast[0] == "mul" and ast[2] in "*?":
        lo_rel = union(lo_rel, [(t, t) for t in given])
    lo = restrict(lo_rel, x, y)
    if members:
        for m in members:
            m.budget = 600
        g = ReadOnlyGraphAggregate(members)
    else:
        g.budget = 600
    api = desc.get("api", "triples")
    try:
        if api == "triples":
            got = [(s, o) for s, _, o in g.triples((x, path, y))]
        elif api == "objects":
            got = [(x, o) for o in g.objects(x, path)]
        elif api == "subjects":
            got = [(s, y) for s in g.subjects(path, y)]
        elif api == "subject_objects":
            got = list(g.subject_objects(path))
        else:
            raise AssertionError(api)
    except Diverged:
        return "evaluation of %s does not terminate" % show(ast)
    for pr in got:
        if not tin(pr, hi):
            return "%s produced a pair outside the relation (ends %s)" % (show(ast), desc["ends"])
    for pr in lo:
        if not tin(pr, got):
            return "%s misses a pair of the relation (ends %s)" % (show(ast), desc["ends"])
    if ast[0] == "mul" and len(dedup(got)) != len(got):
        return "%s produced a duplicate pair (ends %s)" % (show(ast), desc["ends"])
    return None


def body_sparql_path(desc, F, *args):
    """the same relation through a SPARQL triple pattern with the path (rdflib's parser/translator produce the path object);
    nodes and given ends are symbolic IRIs or symbolic integer literals (kind by shape), so that literal end points, literal
    intermediate nodes and the falsy literal occur"""
    from rdflib import Variable
    from rdflib.plugins.sparql.evaluate import evalQuery
    from . import c04, c15
    from .. import sparqlref as R
    KNOWN_NEG_INV[0] = bool(desc.get("model_known_neg_inv"))
    mk = F.lit if desc["kind"] == "L" else F.iri
    g = CountingGraph()
    edges = []
    i = 0
    for pn in desc["edges"]:
        s, o = mk(args[i]), mk(args[i + 1])
        i += 2
        g.add((s, PRED[pn], o))
        if not tin((s, pn, o), edges):
            edges.append((s, pn, o))
    x = y = None
    consts = []
    if desc["ends"][0] == "b":
        x = mk(args[i])
        i += 1
        consts.append(x)
    if desc["ends"][1] == "b":
        y = mk(args[i])
        i += 1
        consts.append(y)
    ast = desc["path"]
    st = "<%s>" % (R.PLACEHOLDER % 0) if x is not None else "?s"
    ot = "<%s>" % (R.PLACEHOLDER % (1 if x is not None else 0)) if y is not None else "?o"
    proj = " ".join(v for v, t in (("?s", x), ("?o", y)) if t is None) or "*"
    text = "SELECT %s WHERE { %s %s %s }" % (proj, st, c15._path_text(ast), ot)
    q = c04.prepare(text, consts)
    nodes = [n[0] for n in dedup([(s,) for s, _, o in edges] + [(o,) for s, _, o in edges])]
    given = [t for t in (x, y) if t is not None]
    uni_hi = [n[0] for n in dedup([(n,) for n in nodes + given])]
    steps = 2 * len(edges) + 2
    hi = restrict(rel(ast, edges, uni_hi, steps), x, y)
    lo_rel = rel(ast, edges, nodes, steps)
    if ast[0] == "mul" and ast[2] in "*?":
        lo_rel = union(lo_rel, [(t, t) for t in given])
    lo = restrict(lo_rel, x, y)
    g.budget = 800
    try:
        res = evalQuery(g, q)
        got = []
        for b in res["bindings"]:
            sv = x if x is not None else b[Variable("s")]
            ov = y if y is not None else b[Variable("o")]
            got.append((sv, ov))
    except Diverged:
        return "SPARQL evaluation of %s does not terminate" % show(ast)
    for pr in got:
        if not tin(pr, hi):
            return "SPARQL: %s produced a pair outside the relation (ends %s)" % (show(ast), desc["ends"])
    for pr in lo:
        if not tin(pr, got):
            return "SPARQL: %s misses a pair of the relation (ends %s)" % (show(ast), desc["ends"])
    return None


def body_construct(desc, F, *args):
    """path objects are values: building a larger path from an existing one (with the / | ~ * operators rdflib defines on
    IRIs and paths) must not change what the existing one denotes"""
    g = CountingGraph()
    edges = []
    i = 0
    for pn in desc["edges"]:
        s, o = F.node(args[i]), F.node(args[i + 1])
        i += 2
        g.add((s, PRED[pn], o))
        if not tin((s, pn, o), edges):
            edges.append((s, pn, o))
    P_, Q_, R_ = PRED["p"], PRED["q"], PRED["r"]
    kind = desc["base"]
    if kind == "seq":
        base, ast = P_ / Q_, ["seq", ["iri", "p"], ["iri", "q"]]
    elif kind == "alt":
        base, ast = P_ | Q_, ["alt", ["iri", "p"], ["iri", "q"]]
    elif kind == "seq3":
        base, ast = (P_ / Q_) / P_, ["seq", ["seq", ["iri", "p"], ["iri", "q"]], ["iri", "p"]]
    else:
        base, ast = ~P_, ["inv", ["iri", "p"]]
    d = desc["derive"]
    if d == "base/r":
        ext = base / R_
    elif d == "r/base":
        ext = R_ / base
    elif d == "base|r":
        ext = base | R_
    elif d == "r|base":
        ext = R_ | base
    elif d == "base*":
        ext = base * "*"
    elif d == "~base":
        ext = ~base
    elif d == "-alt":
        ext = -(base) if kind == "alt" else base / R_
    else:
        raise AssertionError(d)
    list(g.triples((None, ext, None)))  # use the derived path once
    nodes = [n[0] for n in dedup([(s,) for s, _, o in edges] + [(o,) for s, _, o in edges])]
    want = rel(ast, edges, nodes, 2 * len(edges) + 2)
    g.budget = 600
    got = [(s, o) for s, _, o in g.triples((None, base, None))]
    for pr in got:
        if not tin(pr, want):
            return "after deriving %s from it, the %s path produces a pair outside its relation" % (d, kind)
    for pr in want:
        if not tin(pr, got):
            return "after deriving %s from it, the %s path misses a pair of its relation" % (d, kind)
    return None


BODIES = {"path": body_path, "sparql-path": body_sparql_path, "path-construct": body_construct}

P, Q = ["iri", "p"], ["iri", "q"]
DEPTH1 = [P, ["inv", P], ["seq", P, Q], ["seq", P, P], ["alt", P, Q], ["mul", P, "*"], ["mul", P, "+"], ["mul", P, "?"],
          ["neg", ["p"]], ["neg", ["^p"]], ["neg", ["p", "^q"]], ["neg", ["p", "q"]]]


def depth2():
    out = []
    atoms = [P, Q, ["inv", P]]
    unary = lambda x: [["inv", x], ["mul", x, "*"], ["mul", x, "+"], ["mul", x, "?"]]
    d1 = []
    for a in atoms:
        d1 += unary(a)
    d1 += [["seq", P, Q], ["alt", P, Q], ["seq", P, P], ["seq", P, ["inv", P]], ["alt", P, ["inv", P]]]
    for x in d1:
        out += unary(x)
        for a in (P, Q):
            out += [["seq", x, a], ["seq", a, x], ["alt", x, a]]
    for x, y in itertools.product([["mul", P, "*"], ["mul", P, "+"], ["mul", P, "?"], ["mul", Q, "*"]], repeat=2):
        out += [["seq", x, y], ["alt", x, y]]
    for n in (["neg", ["p"]], ["neg", ["^p"]], ["neg", ["p", "^q"]]):
        out += [["mul", n, "*"], ["mul", n, "+"], ["seq", n, P], ["seq", P, n], ["alt", n, Q], ["inv", n]]
    seen, res = set(), []
    for a in out:
        s = show(a)
        if s not in seen and a not in DEPTH1:
            seen.add(s)
            res.append(a)
    return res


def edge_shapes(ast, n):
    ps = sorted(preds_of(ast))
    pool = ps + ["r"]
    shapes = [list(c) for c in itertools.combinations_with_replacement(pool, n)]
    # all-irrelevant data only matters for negated sets
    if "neg" not in show(ast) and "!" not in show(ast):
        shapes = [s for s in shapes if any(p in ps for p in s)]
    return shapes


def obligations(tier, seed):
    rnd = random.Random(seed)
    obs = []

    def add(ast, es, ends, api, budget):
        nsym = 2 * len(es) + ends.count("b")
        obs.append(dict(oid="path/%s/%s/%s/%s" % (show(ast), "".join(es), ends, api), family="path",
                        desc={"path": ast, "edges": es, "ends": ends, "api": api},
                        sig=[("x%d" % i, "i") for i in range(nsym)], budget=budget))

    ENDS = ["uu", "bu", "ub", "bb"]
    API = {"uu": ["triples", "subject_objects"], "bu": ["triples", "objects"], "ub": ["triples", "subjects"], "bb": ["triples"]}
    for ast in DEPTH1:
        for n in ((1, 2) if tier == "quick" else (1, 2, 3)):
            shapes = edge_shapes(ast, n)
            if n == 3:
                shapes = [s for s in shapes if s.count("r") <= 1]
                if tier == "thorough" and len(shapes) > 4:
                    shapes = rnd.sample(shapes, 4)
            for es in shapes:
                for ends in ENDS:
                    apis = API[ends] if (tier == "thorough" or n == 2) else ["triples"]
                    for api in apis[:1] if n == 3 else apis:
                        add(ast, es, ends, api, 150 if n < 3 else 900)
    # the same through ReadOnlyGraphAggregate.triples, the edges spread over two member graphs
    for ast in DEPTH1:
        for es in edge_shapes(ast, 2)[: 1 if tier == "quick" else 4]:
            for ends in ENDS:
                nsym = 2 * len(es) + ends.count("b")
                obs.append(dict(oid="path-aggregate/%s/%s/%s" % (show(ast), "".join(es), ends), family="path",
                                desc={"path": ast, "edges": es, "ends": ends, "api": "triples", "target": "aggregate"},
                                sig=[("x%d" % i, "i") for i in range(nsym)], budget=200))
    # the SPARQL route (parser -> translatePath -> evalBGP), symbolic IRIs and symbolic integer literals as nodes/ends
    for ast in DEPTH1:
        for kind in ("I", "L"):
            for es in edge_shapes(ast, 2)[: 1 if tier == "quick" else 3]:
                for ends in ENDS:
                    nsym = 2 * len(es) + ends.count("b")
                    obs.append(dict(oid="sparql-path/%s/%s/%s/%s" % (show(ast), "".join(es), ends, kind), family="sparql-path",
                                    desc={"path": ast, "edges": es, "ends": ends, "kind": kind},
                                    sig=[("x%d" % i, "i") for i in range(nsym)], budget=300))
    for base in ("seq", "alt", "seq3", "inv"):
        for d in ("base/r", "r/base", "base|r", "r|base", "base*", "~base", "-alt"):
            for es in ([["p", "q"], ["p", "r"]] if base != "seq3" else [["p", "q", "p"]]):
                if es == ["p", "r"] and d not in ("base/r", "base|r"):
                    continue
                obs.append(dict(oid="path-construct/%s/%s/%s" % (base, d, "".join(es)), family="path-construct",
                                desc={"base": base, "derive": d, "edges": es}, sig=[("x%d" % i, "i") for i in range(2 * len(es))], budget=300))
    d2 = depth2()
    if tier == "quick":
        sel = rnd.sample(d2, 24)
    else:
        sel = d2
    for ast in sel:
        shapes = edge_shapes(ast, 2)
        if tier == "quick":
            shapes = rnd.sample(shapes, 1)
        elif len(shapes) > 3:
            shapes = rnd.sample(shapes, 3)
        for es in shapes:
            for ends in (ENDS if tier == "thorough" else rnd.sample(ENDS, 2)):
                add(ast, es, ends, "triples", 200 if tier == "quick" else 600)
    if tier == "thorough":
        for ast in rnd.sample(d2, 30):
            es = rnd.choice([s for s in edge_shapes(ast, 3) if s.count("r") <= 1])
            add(ast, es, rnd.choice(ENDS), "triples", 1200)
    return obs


def bounds(tier):
    return {"path": "all 12 depth<=1 expressions over predicates p,q x every multiset of edge predicates for n<=2 edges%s x 4 "
                    "bound/unbound combinations x Graph.triples/subjects/objects/subject_objects; %s depth-2 expressions with n=2%s; "
                    "edge end points and bound terms symbolic (incl. falsy, incl. terms absent from the graph); the depth<=1 expressions also through "
                    "ReadOnlyGraphAggregate.triples with the edges spread over two member graphs"
                    % ("" if tier == "quick" else " (n=3 sampled)", "24 seeded of %d" % len(depth2()) if tier == "quick" else "all %d" % len(depth2()),
                       "" if tier == "quick" else " and 30 with n=3"),
            "sparql-path": "the 12 depth<=1 expressions as SPARQL triple patterns (text -> rdflib parser -> translatePath -> evalBGP), n=2 edges, "
                           "4 end combinations (given ends as constants), nodes/ends symbolic IRIs and symbolic integer literals",
            "path-construct": "a path built with the / | ~ * - operators keeps its denotation after larger paths were derived from it (aliasing of the "
                              "argument lists)",
            "outside": "n>3 edges, depth>2, ConjunctiveGraph/ReadOnlyGraphAggregate as the evaluated graph"}


def _has_neg_inv(ast):
    if ast[0] == "neg":
        return any(m.startswith("^") for m in ast[1])
    return any(_has_neg_inv(x) for x in ast[1:] if isinstance(x, list))


def finding_key(ob, cex, reason):
    if ob["family"] == "path-construct":
        return "path-construct|%s" % reason
    if ob["desc"].get("model_known_neg_inv"):
        return "path|residual|%s" % reason.replace("SPARQL: ", "")
    if _has_neg_inv(ob["desc"]["path"]):
        return "path|negated-set-with-inverse-member"
    return "path|%s" % reason


def residual(ob):
    """For an obligation that hits the recorded finding, the same obligation against an oracle that
    models exactly that defect: anything it still refutes is a different violation."""
    if ob["family"] == "path-construct":
        return None
    if _has_neg_inv(ob["desc"]["path"]) and not ob["desc"].get("model_known_neg_inv"):
        d = dict(ob["desc"])
        d["model_known_neg_inv"] = True
        o2 = dict(ob)
        o2["desc"] = d
        return o2
    return None
