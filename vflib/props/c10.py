"""C10 — SPARQL Update transforms the dataset exactly as the Update semantics prescribe (engine S).

Shape: the update request (generated AST -> text -> rdflib's parser/translator, concretely), kind of
target object (Graph / Dataset / ConjunctiveGraph), default-graph-union switch, predicate and graph
of every data triple.  Content: subjects/objects of the data and the request's constants.
Oracle: a dataset transformer written from SPARQL 1.1 Update (WHERE evaluated once on the pre-state
by vflib.sparqlref, all deletions before all insertions, fresh blank nodes per solution).
"""
import itertools
import random

from rdflib import BNode, ConjunctiveGraph, Dataset, Graph, Literal, URIRef
from rdflib.graph import DATASET_DEFAULT_GRAPH_ID

from .. import sparqlref as R
from ..model import dedup, same_set, teq, tin
from .c04 import _subst, run_untraced, V, C, P, Q, tp

PROPERTY = "C10"
FUNCTIONS = [
    "rdflib.plugins.sparql.update.evalUpdate", "rdflib.plugins.sparql.update.evalModify", "rdflib.plugins.sparql.update.evalDeleteWhere",
    "rdflib.plugins.sparql.update.evalInsertData", "rdflib.plugins.sparql.update.evalDeleteData", "rdflib.plugins.sparql.update.evalClear",
    "rdflib.plugins.sparql.update.evalDrop", "rdflib.plugins.sparql.update.evalAdd", "rdflib.plugins.sparql.update.evalMove",
    "rdflib.plugins.sparql.update.evalCopy", "rdflib.plugins.sparql.update._graphAll", "rdflib.plugins.sparql.update._graphOrDefault",
    "rdflib.plugins.sparql.evalutils._fillTemplate", "rdflib.plugins.sparql.evaluate.evalPart", "rdflib.plugins.sparql.evaluate.evalBGP",
    "rdflib.plugins.sparql.sparql.QueryContext", "rdflib.graph.Graph.__iadd__", "rdflib.graph.Graph.__isub__",
    "rdflib.graph.ConjunctiveGraph.get_context", "rdflib.plugins.stores.memory.Memory.add", "rdflib.plugins.stores.memory.Memory.remove",
    "rdflib.plugins.stores.memory.Memory.remove_graph",
    "(concrete, before the symbolic region) rdflib.plugins.sparql.parser.parseUpdate, rdflib.plugins.sparql.algebra.translateUpdate",
]
STUBS = ["request constants are placeholder IRIs replaced in rdflib's algebra by symbolic IRIs", "parse/translate of the request runs untraced"]
ASSUMPTIONS = ["configurations: Graph; Dataset(default_union=False) with the engine switch SPARQL_DEFAULT_GRAPH_UNION off (WHERE reads the real "
               "default graph); ConjunctiveGraph and Dataset(default_union=True) with the switch on (WHERE reads the union). The combination "
               "switch on + Dataset(default_union=False) is not claimed (rdflib then reads the real default graph; the property text does "
               "not say which of the two settings wins)",
               "SPARQL_LOAD_GRAPHS is off: USING <g> refers to the graph g of the store (with the switch on rdflib tries to fetch g from the web)",
               "graph names are the concrete IRIs <urn:g1>, <urn:g2>, and <urn:g3> as a missing graph"]

GN = {"g1": R.IRIS["g1"], "g2": R.IRIS["g2"], "g3": R.IRIS["g3"]}


class FreshB:
    """stands for a blank node minted for solution number `sol` from template label `label`"""

    def __init__(self, sol, label):
        self.sol, self.label = sol, label

    def __eq__(self, o):
        return isinstance(o, FreshB) and (o.sol, o.label) == (self.sol, self.label)

    def __hash__(self):
        return hash((self.sol, self.label))


# ----------------------------------------------------------------------------- rendering
def r_t(t):
    if t[0] == "b":
        return "_:" + t[1]
    return R.r_term(t)


def r_quads(quads):
    by = {}
    for q in quads:
        s, p, o, g = q[:4]
        blk = q[4] if len(q) > 4 else 0   # same graph, different block number -> a separate GRAPH block in the text
        by.setdefault((g, blk), []).append("%s %s %s ." % (r_t(s), r_t(p), r_t(o)))
    out = []
    for (g, blk), ts in sorted(by.items(), key=lambda kv: kv[0][1]):
        if g == "d":
            out.append(" ".join(ts))
        elif g.startswith("?"):
            out.append("GRAPH %s { %s }" % (g, " ".join(ts)))
        else:
            out.append("GRAPH <%s> { %s }" % (GN[g], " ".join(ts)))
    return "{ " + " ".join(out) + " }"


def r_target(t):
    if isinstance(t, list):
        return "GRAPH <%s>" % GN[t[1]]
    return t


def r_gd(t):
    return "DEFAULT" if t == "DEFAULT" else "<%s>" % GN[t]


def r_op(op):
    k = op[0]
    if k == "insertdata":
        return "INSERT DATA " + r_quads(op[1])
    if k == "deletedata":
        return "DELETE DATA " + r_quads(op[1])
    if k == "deletewhere":
        return "DELETE WHERE " + r_quads(op[1])
    if k == "modify":
        _, with_, using, dele, ins, where = op
        s = ""
        if with_:
            s += "WITH <%s> " % GN[with_]
        if dele is not None:
            s += "DELETE " + r_quads(dele) + " "
        if ins is not None:
            s += "INSERT " + r_quads(ins) + " "
        for u in using:
            s += "USING <%s> " % GN[u]
        return s + "WHERE " + R.r_group(where)
    if k in ("clear", "drop"):
        return "%s %s" % (k.upper(), r_target(op[1]))
    if k in ("add", "move", "copy"):
        return "%s %s TO %s" % (k.upper(), r_gd(op[1]), r_gd(op[2]))
    raise AssertionError(op)


def render(ops):
    return " ;\n".join(r_op(o) for o in ops)


# ----------------------------------------------------------------------------- reference transformer
def ref_apply(state, ops, consts, union):
    """state: {'d': [...], 'g1': [...], 'g2': [...], 'g3': [...]} of (s, predname, o)"""
    solno = [0]

    def val(t, mu, sol):
        if t[0] == "b":
            return FreshB(sol, t[1])
        if t[0] == "v":
            return mu.get(t[1])
        if t[0] == "c":
            return consts[t[1]]
        if t[0] == "iri":
            return t[1]  # predicate name
        raise AssertionError(t)

    def inst(quads, mu, sol, default_target):
        out = []
        for q in quads:
            s, p, o, g = q[:4]
            if g.startswith("?"):
                gv = mu.get(g[1:])
                gname = None
                for n, iri in GN.items():
                    if gv is not None and gv == iri:
                        gname = n
                if gname is None:
                    continue
            else:
                gname = default_target if g == "d" else g
            sv, ov = val(s, mu, sol), val(o, mu, sol)
            pv = val(p, mu, sol) if p[0] != "v" else None
            if p[0] == "v":
                pm = mu.get(p[1])
                pv = None
                for n in ("p", "q", "r"):
                    if pm is not None and pm == R.IRIS[n]:
                        pv = n
            if sv is None or ov is None or pv is None:
                continue
            if isinstance(sv, bool):
                continue  # literal subject: illegal, skipped
            if isinstance(ov, bool):
                ov = Literal(ov)
            out.append((gname, (sv, pv, ov)))
        return out

    for op in ops:
        k = op[0]
        if k == "insertdata":
            for g, t in inst(op[1], {}, 0, "d"):
                if not tin(t, state[g]):
                    state[g] = state[g] + [t]
        elif k == "deletedata":
            for g, t in inst(op[1], {}, 0, "d"):
                state[g] = [u for u in state[g] if not teq(u, t)]
        elif k in ("deletewhere", "modify"):
            if k == "deletewhere":
                with_, using, dele, ins = None, [], op[1], None
                where = []
                for q in op[1]:
                    s, p, o, g = q[:4]
                    el = tp(s, p, o)
                    if g == "d":
                        where.append(el)
                    else:
                        where.append(["graph", ["v", g[1:]] if g.startswith("?") else ["iri", g], [el]])
            else:
                _, with_, using, dele, ins, where = op
            # dataset the WHERE clause sees
            if using:
                dflt = dedup([t for u in using for t in state[u]])
            elif with_:
                dflt = state[with_]
            elif union:
                dflt = dedup(state["d"] + state["g1"] + state["g2"] + state["g3"])
            else:
                dflt = state["d"]
            data = {"default": list(dflt), "named": {n: list(state[n]) for n in ("g1", "g2")}}
            sols = R.Ref(data, consts).group(where, "default")
            target = with_ or "d"
            dels, inss = [], []
            for mu in sols:
                solno[0] += 1
                if dele is not None:
                    dels += inst(dele, mu, solno[0], target)
                if ins is not None:
                    inss += inst(ins, mu, solno[0], target)
            for g, t in dels:
                state[g] = [u for u in state[g] if not teq(u, t)]
            for g, t in inss:
                if not tin(t, state[g]):
                    state[g] = state[g] + [t]
        elif k in ("clear", "drop"):
            t = op[1]
            if t == "DEFAULT":
                names = ["d"]
            elif t == "NAMED":
                names = ["g1", "g2", "g3"]
            elif t == "ALL":
                names = ["d", "g1", "g2", "g3"]
            else:
                names = [t[1]]
            for n in names:
                state[n] = []
        elif k in ("add", "move", "copy"):
            src = "d" if op[1] == "DEFAULT" else op[1]
            dst = "d" if op[2] == "DEFAULT" else op[2]
            if src == dst:
                continue
            if k in ("move", "copy"):
                state[dst] = []
            for t in state[src]:
                if not tin(t, state[dst]):
                    state[dst] = state[dst] + [t]
            if k == "move":
                state[src] = []
        else:
            raise AssertionError(op)
    return state


def match_fresh(got, exp):
    """got: real triples; exp: triples possibly containing FreshB.  Set equality up to a bijection
    FreshB <-> new blank nodes (bounded backtracking; exp is tiny)."""
    if len(got) != len(exp):
        return False

    def ok_term(e, g, m):
        if isinstance(e, FreshB):
            if not isinstance(g, BNode):
                return False
            if e in m:
                return m[e] == g
            if g in m.values():
                return False
            m[e] = g
            return True
        return e is g or e == g

    def rec(i, used, m):
        if i == len(exp):
            return True
        e = exp[i]
        for j, g in enumerate(got):
            if j in used:
                continue
            m2 = dict(m)
            if ok_term(e[0], g[0], m2) and e[1] == g[1] and ok_term(e[2], g[2], m2):
                if rec(i + 1, used | {j}, m2):
                    return True
        return False

    return rec(0, frozenset(), {})


# ----------------------------------------------------------------------------- harness body
def body_update(desc, F, *args):
    import rdflib.plugins.sparql as sparql_mod
    from rdflib.plugins.sparql.processor import prepareUpdate
    from rdflib.plugins.sparql.update import evalUpdate

    kind = desc["target"]
    union = desc["union"]
    if kind == "Graph":
        g = Graph()
        store = None
    elif kind == "ConjunctiveGraph":
        g = ConjunctiveGraph()
        store = g.store
    else:
        g = Dataset(default_union=union)
        store = g.store
    default_id = None if kind == "Graph" else g.default_context.identifier if kind == "ConjunctiveGraph" else DATASET_DEFAULT_GRAPH_ID
    state = {"d": [], "g1": [], "g2": [], "g3": []}
    i = 0
    for pn, gn in desc["data"]:
        s, o = F.iri(args[i]), F.iri(args[i + 1])
        i += 2
        if not tin((s, pn, o), state[gn]):
            state[gn] = state[gn] + [(s, pn, o)]
        if gn == "d":
            g.add((s, R.IRIS[pn], o))
        else:
            g.add((s, R.IRIS[pn], o, GN[gn]))
    consts = [F.iri(args[i + j]) for j in range(desc["nconst"])]

    def mk():
        u = prepareUpdate(desc["text"])
        m = {URIRef(R.PLACEHOLDER % j): c for j, c in enumerate(consts)}
        if m:
            u.algebra = [_subst(x, m) for x in u.algebra]
        return u

    upd = None if desc.get("public") else run_untraced(mk)
    exp = ref_apply({k: list(v) for k, v in state.items()}, desc["ops"], consts, union)
    old = (sparql_mod.SPARQL_DEFAULT_GRAPH_UNION, sparql_mod.SPARQL_LOAD_GRAPHS)
    sparql_mod.SPARQL_DEFAULT_GRAPH_UNION = bool(union)
    sparql_mod.SPARQL_LOAD_GRAPHS = False  # USING <g> names a graph of the store, nothing is fetched
    try:
        if upd is None:
            g.update(desc["text"])  # the public route: Graph.update(text) -> SPARQLUpdateProcessor.update
        else:
            evalUpdate(g, upd)
    finally:
        sparql_mod.SPARQL_DEFAULT_GRAPH_UNION, sparql_mod.SPARQL_LOAD_GRAPHS = old
    # compare graph by graph
    for gn in ("d", "g1", "g2", "g3"):
        if kind == "Graph":
            if gn != "d":
                continue
            got = list(g)
        else:
            ident = default_id if gn == "d" else GN[gn]
            got = list(Graph(store, ident))
        want = [(s, R.IRIS[p], o) for s, p, o in exp[gn]]
        if any(isinstance(x, FreshB) for t in want for x in t):
            if not match_fresh(got, want):
                return "graph %s differs from the Update semantics (fresh blank nodes) [%s]" % (gn, desc["name"])
        elif not same_set(got, want):
            return "graph %s differs from the Update semantics [%s]" % (gn, desc["name"])
    if kind != "Graph":
        # nothing may be written into a graph the request does not name (e.g. one named by a fresh blank node)
        named_ids = [default_id] + [GN[n] for n in ("g1", "g2", "g3")]
        for c in list(g.contexts()):
            if not any(c.identifier == i for i in named_ids) and len(c) > 0:
                return "triples were written into a graph that the request does not name [%s]" % desc["name"]
    return None


BODIES = {"update": body_update}


# ----------------------------------------------------------------------------- catalogue
def requests(named):
    """name -> (ops, nconst); `named` = target supports named graphs"""
    out = {}
    S, O, Z = V("s"), V("o"), V("z")
    A = [tp(S, P, O)]
    out["insertdata"] = ([["insertdata", [(C(0), P, C(1), "d")]]], 2)
    out["insertdata-dup"] = ([["insertdata", [(C(0), P, C(1), "d"), (C(0), P, C(1), "d")]]], 2)
    out["deletedata"] = ([["deletedata", [(C(0), P, C(1), "d")]]], 2)
    out["insert-then-delete"] = ([["insertdata", [(C(0), P, C(1), "d")]], ["deletedata", [(C(2), P, C(3), "d")]]], 4)
    out["delete-then-insert"] = ([["deletedata", [(C(0), P, C(1), "d")]], ["insertdata", [(C(2), P, C(3), "d")]]], 4)
    out["deletewhere"] = ([["deletewhere", [(S, P, O, "d")]]], 0)
    out["deletewhere-const"] = ([["deletewhere", [(S, P, C(0), "d")]]], 1)
    out["deletewhere-2"] = ([["deletewhere", [(S, P, O, "d"), (O, Q, Z, "d")]]], 0)
    # same shape, other variable names (rdflib orders the patterns by name-dependent keys: the evaluation order changes)
    out["deletewhere-2-xyz"] = ([["deletewhere", [(V("x"), P, V("y"), "d"), (V("y"), Q, V("z"), "d")]]], 0)
    out["deletewhere-2-zyx"] = ([["deletewhere", [(V("z"), P, V("y"), "d"), (V("y"), Q, V("x"), "d")]]], 0)
    # one variable in two positions of a pattern: only triples with the same term in both positions match
    out["deletewhere-repeated-var"] = ([["deletewhere", [(S, P, S, "d")]]], 0)
    out["deletewhere-repeated-var-const"] = ([["deletewhere", [(S, P, S, "d"), (S, Q, C(0), "d")]]], 1)
    out["modify-repeated-var"] = ([["modify", None, [], [(S, P, S, "d")], [(S, Q, S, "d")], [tp(S, P, S)]]], 0)
    out["modify-swap"] = ([["modify", None, [], [(S, P, O, "d")], [(O, P, S, "d")], A]], 0)
    out["modify-shift"] = ([["modify", None, [], [(S, P, O, "d")], [(O, P, C(0), "d")], A]], 1)
    out["modify-insert-deleted"] = ([["modify", None, [], [(S, P, O, "d")], [(C(0), P, C(1), "d")], A]], 2)
    out["modify-insert-only"] = ([["modify", None, [], None, [(O, Q, S, "d")], A]], 0)
    out["modify-delete-only"] = ([["modify", None, [], [(S, P, O, "d")], None, A + [["filter", ["!=", O, C(0)]]]]], 1)
    out["modify-unbound"] = ([["modify", None, [], None, [(S, Q, Z, "d"), (S, Q, O, "d")], A + [["opt", [tp(O, Q, Z)]]]]], 0)
    out["modify-literal-subject"] = ([["modify", None, [], None, [(V("b"), Q, S, "d"), (S, Q, V("b"), "d")], A + [["bind", ["=", S, O], "b"]]]], 0)
    out["modify-bnode"] = ([["modify", None, [], None, [(S, Q, ["b", "x"], "d"), (["b", "x"], Q, O, "d")], A]], 0)
    # duplicate solutions (multiset semantics of WHERE): one fresh blank node per solution, duplicates included
    out["modify-bnode-dup-solutions"] = ([["modify", None, [], None, [(S, Q, ["b", "x"], "d")], [["union", A, A]]]], 0)
    out["modify-bnode-values-dup"] = ([["modify", None, [], None, [(S, Q, ["b", "x"], "d")], A + [["values", ["o"], [[C(0)], [C(0)]]]]]], 1)
    out["modify-where-sees-prestate"] = ([["modify", None, [], [(S, P, O, "d")], [(O, P, O, "d")], A + [["filter", ["notexists", [tp(O, P, O)]]]]]], 0)
    out["two-modifies"] = ([["modify", None, [], None, [(O, Q, S, "d")], A], ["modify", None, [], [(S, Q, O, "d")], None, [tp(S, Q, O)]]], 0)
    out["clear-default"] = ([["clear", "DEFAULT"]], 0)
    out["drop-default"] = ([["drop", "DEFAULT"]], 0)
    if named:
        out["insertdata-graph"] = ([["insertdata", [(C(0), P, C(1), "g1"), (C(0), Q, C(1), "d")]]], 2)
        out["deletedata-graph"] = ([["deletedata", [(C(0), P, C(1), "g1")]]], 2)
        out["deletewhere-graph"] = ([["deletewhere", [(S, P, O, "g1")]]], 0)
        out["deletewhere-graph-repeated-var"] = ([["deletewhere", [(S, P, S, "g1")]]], 0)
        out["deletewhere-graphvar"] = ([["deletewhere", [(S, P, O, "?g")]]], 0)
        out["with-swap"] = ([["modify", "g1", [], [(S, P, O, "d")], [(O, P, S, "d")], A]], 0)
        out["with-graph-template"] = ([["modify", "g1", [], [(S, P, O, "d")], [(S, P, O, "g2")], A]], 0)
        out["using-copy"] = ([["modify", None, ["g1"], None, [(S, P, O, "d")], A]], 0)
        out["using-with"] = ([["modify", "g2", ["g1"], [(S, P, O, "d")], [(O, P, S, "d")], A]], 0)
        out["using-two"] = ([["modify", None, ["g1", "g2"], None, [(S, Q, O, "d")], A]], 0)
        out["graph-where-to-default"] = ([["modify", None, [], None, [(S, P, O, "d")], [["graph", ["iri", "g1"], A]]]], 0)
        out["graphvar-move"] = ([["modify", None, [], [(S, P, O, "?g")], [(S, P, O, "g2")], [["graph", V("g"), A]]]], 0)
        out["default-where-to-graph"] = ([["modify", None, [], [(S, P, O, "d")], [(S, P, O, "g1")], A]], 0)
        for t in ("DEFAULT", "NAMED", "ALL", ["graph", "g1"], ["graph", "g3"]):
            nm = t if isinstance(t, str) else "graph-" + t[1]
            out["clear-" + nm.lower()] = ([["clear", t]], 0)
            out["drop-" + nm.lower()] = ([["drop", t]], 0)
        for k in ("add", "move", "copy"):
            for src, dst in itertools.product(("DEFAULT", "g1", "g2", "g3"), repeat=2):
                if src == "g3" and dst == "g3":
                    continue
                out["%s-%s-%s" % (k, src.lower(), dst.lower())] = ([[k, src, dst]], 0)
        # one template naming the same graph in two separate GRAPH blocks (with another block in between)
        out["insertdata-graph-twice"] = ([["insertdata", [(C(0), P, C(1), "g1", 0), (C(0), Q, C(1), "g2", 1), (C(1), P, C(0), "g1", 2)]]], 2)
        out["deletedata-graph-twice"] = ([["deletedata", [(C(0), P, C(1), "g1", 0), (C(2), P, C(3), "g2", 1), (C(1), P, C(0), "g1", 2)]]], 4)
        out["modify-graph-twice"] = ([["modify", None, [], [(S, P, O, "g1", 0), (S, P, O, "g2", 1), (O, P, S, "g1", 2)],
                                       [(S, Q, O, "g2", 0), (O, Q, S, "g1", 1), (S, Q, S, "g2", 2)], [["graph", ["iri", "g1"], A]]]], 0)
        out["deletewhere-graphvar-twice"] = ([["deletewhere", [(S, P, O, "?g", 0), (O, Q, Z, "g2", 1), (S, P, O, "?g", 2)]]], 0)
        # deletions through a GRAPH block and insertions outside GRAPH that hit the same graph (WITH) and the same triple
        out["with-graphvar-delete-plain-insert"] = ([["modify", "g1", [], [(S, P, O, "?g")], [(S, P, C(0), "d")], [["graph", V("g"), A]]]], 1)
        out["with-graph-delete-plain-insert"] = ([["modify", "g1", [], [(S, P, O, "g1")], [(O, P, S, "d")], A]], 0)
        out["plain-delete-graph-insert-same"] = ([["modify", "g1", [], [(S, P, O, "d")], [(O, P, S, "g1")], A]], 0)
        # graph variable of a template block unbound in some (or all) solutions: those quads are not instantiated
        out["insert-graphvar-unbound"] = ([["modify", None, [], None, [(S, Q, O, "?g")], A + [["opt", [["graph", V("g"), [tp(O, P, S)]]]]]]], 0)
        out["insert-graphvar-never-bound"] = ([["modify", None, [], None, [(S, Q, O, "?g"), (O, Q, S, "d")], A]], 0)
        out["delete-graphvar-unbound"] = ([["modify", None, [], [(S, P, O, "?g"), (S, P, O, "d")], None, A + [["opt", [["graph", V("g"), [tp(O, P, S)]]]]]]], 0)
        out["copy-then-clear"] = ([["copy", "g1", "g2"], ["clear", ["graph", "g1"]]], 0)
    return out


def data_shapes(named, n):
    if not named:
        return {2: [["p", "p"], ["p", "q"]], 3: [["p", "p", "q"], ["p", "p", "p"]]}[n]
    return {2: [[("p", "d"), ("p", "g1")], [("p", "g1"), ("p", "g2")], [("p", "d"), ("q", "d")], [("p", "g1"), ("q", "g1")]],
            3: [[("p", "d"), ("p", "g1"), ("p", "g2")], [("p", "d"), ("p", "d"), ("q", "g1")], [("p", "g1"), ("p", "g1"), ("q", "g2")]]}[n]


def obligations(tier, seed):
    rnd = random.Random(seed)
    obs = []
    configs = [("Graph", False), ("Dataset", False), ("Dataset", True), ("ConjunctiveGraph", True)]
    for target, union in configs:
        named = target != "Graph"
        reqs = requests(named)
        for name, (ops, nc) in sorted(reqs.items()):
            if target == "ConjunctiveGraph" and tier == "quick" and not (name.startswith(("modify", "clear", "drop", "with", "using")) ):
                continue
            if target == "Dataset" and union and tier == "quick" and name.startswith(("add-", "move-", "copy-")) and rnd.random() < 0.6:
                continue
            for n in ((2,) if tier == "quick" else (2, 3)):
                shapes = data_shapes(named, n)
                if named:
                    shapes = shapes[:2] if (tier == "quick" or n == 3) else shapes
                else:
                    shapes = shapes[:1] if tier == "quick" else shapes
                if tier == "quick" and name.startswith("deletewhere-2"):
                    shapes = list(shapes) + [data_shapes(named, 3)[0 if not named else 1]]
                for ds in shapes:
                    dd = [(d, "d") for d in ds] if not named else ds
                    tag = "".join(p for p, _ in dd) if not named else ",".join("%s@%s" % x for x in dd)
                    obs.append(dict(oid="u/%s%s/%s/%s" % (target, "+union" if union else "", name, tag), family="update",
                                    desc={"name": name, "ops": ops, "nconst": nc, "text": render(ops), "target": target, "union": union,
                                          "data": [list(x) for x in dd]},
                                    sig=[("x%d" % i, "i") for i in range(2 * len(dd) + nc)], budget=300 if n == 2 else 900))
                    if nc == 0 and n == 2 and ds is shapes[0] and (tier == "thorough" or target != "ConjunctiveGraph"):
                        # the same request as text through the public route Graph.update()
                        obs.append(dict(oid="u/%s%s/%s/%s-public" % (target, "+union" if union else "", name, tag), family="update",
                                        desc={"name": name, "ops": ops, "nconst": nc, "text": render(ops), "target": target, "union": union,
                                              "data": [list(x) for x in dd], "public": True},
                                        sig=[("x%d" % i, "i") for i in range(2 * len(dd))], budget=300))
    return obs


def untraced():
    # the `public` obligations call Graph.update(text): rdflib's parser and translator run on concrete text, outside the tracer
    from rdflib.plugins.sparql.algebra import translateUpdate
    from rdflib.plugins.sparql.parser import parseUpdate
    from ..driver import default_untraced
    return default_untraced() + [parseUpdate, translateUpdate]


def bounds(tier):
    return {"update": "%d request templates (INSERT/DELETE DATA, DELETE WHERE, DELETE/INSERT/WHERE with overlapping delete/insert sets, "
                      "unbound variables, literal subjects, blank nodes, WITH, USING, GRAPH in template and WHERE, CLEAR/DROP x {DEFAULT,NAMED,"
                      "ALL,GRAPH g,missing graph}, ADD/MOVE/COPY for every (src,dst) over {DEFAULT,g1,g2,missing} incl. src=dst, two-operation "
                      "requests) x {Graph, Dataset/switch off, Dataset(default_union)/switch on, ConjunctiveGraph/switch on} x data shapes with "
                      "n=2%s symbolic triples over default/g1/g2" % (len(requests(True)), "" if tier == "quick" else " and n=3"),
            "public": "every template without constants also as text through Graph.update() -> SPARQLUpdateProcessor (first data shape, n=2)",
            "outside": "LOAD, CREATE, initBindings on updates, SILENT, the combination switch on + Dataset(default_union=False), n>3"}


def finding_key(ob, cex, reason):
    d = ob["desc"]
    return "update|%s|%s|%s" % (d["target"] + ("+union" if d["union"] else ""), d["name"], reason.split(" [")[0])
