"""C20 — a graph backed by a SPARQL endpoint mirrors the endpoint (engine S; partial: the query / update text that
SPARQLStore and SPARQLUpdateStore generate, and what they make of the results).

The HTTP exchange and the result codecs are out of reach (sockets, C codecs).  What is decided here: whether the *text* that
SPARQLStore.triples / __len__ / contexts and SPARQLUpdateStore.add / remove / commit / rollback generate for a pattern or a
statement means what the caller asked for, for every term identity including falsy terms.  The store's `_query` / `_update`
(its only door to the network) is replaced by an endpoint model: the generated text is parsed by rdflib's own SPARQL parser
(concrete text, run outside the tracer), the placeholder terms in it are replaced by the symbolic terms they stand for, and the
query or update is evaluated by rdflib's own engine (checked separately: C04, C10) on a local Dataset that plays the endpoint's
data.  Every read through the store-backed graph is compared with that Dataset.
"""
from rdflib import ConjunctiveGraph, Dataset, Graph, Literal, URIRef, Variable
from rdflib.namespace import XSD

from ..model import dedup, match, same_set, tin
from .c04 import run_untraced

PROPERTY = "C20"
FUNCTIONS = [
    "rdflib.plugins.stores.sparqlstore.SPARQLStore.triples / __len__ / contexts / _is_contextual / query (text generation and result unpacking)",
    "rdflib.plugins.stores.sparqlstore._node_to_sparql", "rdflib.term.URIRef.n3", "rdflib.term.Literal.n3 (on a placeholder lexical form)",
    "rdflib.plugins.stores.sparqlstore.SPARQLUpdateStore.add / addN / remove / commit / rollback / _transaction / query / triples / __len__ / "
    "_insert_named_graph-free paths (text generation, edit queue)",
    "rdflib.graph.Graph.triples / __len__ / __contains__ / add / remove, ConjunctiveGraph.contexts over the store",
    "rdflib.plugins.sparql (parser untraced; evalQuery / evalUpdate traced) as the endpoint model",
]
STUBS = ["SPARQLStore._query and SPARQLUpdateStore._update (the store's only doors to the network) are replaced by an endpoint model: parse the "
         "generated text with rdflib's SPARQL parser (untraced), substitute the placeholder terms by the symbolic terms they stand for, evaluate with "
         "rdflib's engine on a local Dataset(default_union=False); the protocol's default-graph-uri selects the graph the query runs on",
         "symbolic terms carry a concrete slot number in their text (<urn:x-sym:N>, \"symN\"^^<urn:x-sym:dt>) so that the generated text is concrete "
         "while identity and truthiness stay symbolic"]
ASSUMPTIONS = ["the endpoint evaluates SPARQL as rdflib's engine does on the catalogue of C04/C10 (BGP, ASK, COUNT(*), GRAPH ?g, INSERT DATA, DELETE "
               "WHERE / DELETE DATA with GRAPH) — those evaluators are checked by C04, C08, C10",
               "HTTP, result serialisation formats (C16), authentication, blank nodes (unsupported by the store) are outside"]

G1 = URIRef("urn:g1")
PRED = {"p": URIRef("urn:p"), "q": URIRef("urn:q")}
SLOT_DT = URIRef("urn:x-sym:dt")


# ----------------------------------------------------------------------------- slot terms
def _fork(c):
    from ..symterms import _fork as f
    return f(c)


class SlotIRI(URIRef):
    def __new__(cls, k, slot):
        inst = str.__new__(cls, "urn:x-sym:%d" % slot)
        inst.k = k
        return inst

    def __eq__(self, o):
        if o is self:
            return True
        if type(o) is not SlotIRI:
            return False
        return _fork(self.k == o.k)

    def __ne__(self, o):
        return not self.__eq__(o)

    def __hash__(self):
        return 0

    def __bool__(self):
        return True

    def __repr__(self):
        return "SlotIRI"


class SlotLit(Literal):
    """a literal with symbolic identity k (k = 0: the falsy one); its text is the concrete placeholder "symN"^^<urn:x-sym:dt>"""

    def __new__(cls, k, slot):
        inst = str.__new__(cls, "sym%d" % slot)
        inst.k = k
        inst._value = None
        inst._datatype = SLOT_DT
        inst._language = None
        inst._ill_typed = False
        return inst

    def __eq__(self, o):
        if o is self:
            return True
        if type(o) is not SlotLit:
            return False
        return _fork(self.k == o.k)

    def __ne__(self, o):
        return not self.__eq__(o)

    def __hash__(self):
        return 0

    def __bool__(self):
        return _fork(self.k != 0)

    def __repr__(self):
        return "SlotLit"


class Slots:
    """creates the terms of one path and remembers which placeholder stands for which term"""

    def __init__(self, F):
        self.F = F
        self.n = 0
        self.map = {}

    def iri(self, k):
        if not getattr(self.F, "symbolic", False):
            return self.F.iri(k)
        self.n += 1
        t = SlotIRI(k, self.n)
        self.map[URIRef("urn:x-sym:%d" % self.n)] = t
        return t

    def lit(self, k):
        if not getattr(self.F, "symbolic", False):
            return self.F.lit(k)
        self.n += 1
        t = SlotLit(k, self.n)
        self.map[Literal("sym%d" % self.n, datatype=SLOT_DT)] = t
        return t

    def term(self, kind, k):
        return self.lit(k) if kind == "L" else self.iri(k)


def _subst(x, m):
    from rdflib.plugins.sparql.parserutils import CompValue
    if isinstance(x, CompValue):
        for key in list(x.keys()):
            x[key] = _subst(x[key], m)
        for key, val in list(vars(x).items()):
            if key != "_OrderedDict__map":
                object.__setattr__(x, key, _subst(val, m))
        return x
    if isinstance(x, dict):
        for key in list(x.keys()):
            x[key] = _subst(x[key], m)
        return x
    if isinstance(x, list):
        return [_subst(y, m) for y in x]
    if isinstance(x, tuple):
        return tuple(_subst(y, m) for y in x)
    if isinstance(x, set):
        return set(_subst(y, m) for y in x)
    if (type(x) is URIRef or type(x) is Literal) and x in m:
        return m[x]
    return x


# ----------------------------------------------------------------------------- endpoint model
class Endpoint:
    def __init__(self, slots):
        self.ds = Dataset(default_union=False)
        self.g1 = self.ds.graph(G1)
        self.slots = slots
        self.queries = []
        self.updates = []

    def _target(self, default_graph):
        if default_graph is None:
            return self.ds
        return self.ds.get_context(default_graph)

    def query(self, text, default_graph=None, named_graph=None):
        import rdflib.plugins.sparql as sparql_mod
        from rdflib.plugins.sparql.evaluate import evalQuery
        from rdflib.plugins.sparql.processor import SPARQLResult, prepareQuery
        self.queries.append(text)
        m = self.slots.map

        def mk():
            q = prepareQuery(text)
            if m:
                _subst(q.algebra, m)
            return q

        q = run_untraced(mk)
        old = sparql_mod.SPARQL_DEFAULT_GRAPH_UNION
        sparql_mod.SPARQL_DEFAULT_GRAPH_UNION = False
        try:
            res = evalQuery(self._target(default_graph), q)
            # materialise inside the switch
            if "bindings" in res:
                res["bindings"] = list(res["bindings"])
            return SPARQLResult(res)
        finally:
            sparql_mod.SPARQL_DEFAULT_GRAPH_UNION = old

    def update(self, text):
        import rdflib.plugins.sparql as sparql_mod
        from rdflib.plugins.sparql.processor import prepareUpdate
        from rdflib.plugins.sparql.update import evalUpdate
        self.updates.append(text)
        m = self.slots.map

        def mk():
            u = prepareUpdate(text)
            if m:
                u.algebra = [_subst(x, m) for x in u.algebra]
            return u

        u = run_untraced(mk)
        old = sparql_mod.SPARQL_DEFAULT_GRAPH_UNION
        sparql_mod.SPARQL_DEFAULT_GRAPH_UNION = False
        try:
            evalUpdate(self.ds, u)
        finally:
            sparql_mod.SPARQL_DEFAULT_GRAPH_UNION = old

    def content(self, gn):
        return list(self.ds.default_graph if gn == "d" else self.g1)


SHAPES8 = ["000", "100", "010", "001", "110", "101", "011", "111"]


def _fill(desc, S, ep, args):
    """the endpoint's data: 2 triples by shape (predicate, graph, object kind); returns the model {'d': [...], 'g1': [...]} and next arg"""
    model = {"d": [], "g1": []}
    i = 0
    for pn, gn, kind in desc["data"]:
        s, o = S.iri(args[i]), S.term(kind, args[i + 1])
        i += 2
        t = (s, PRED[pn], o)
        (ep.ds.default_graph if gn == "d" else ep.g1).add(t)
        if not tin(t, model[gn]):
            model[gn].append(t)
    return model, i


def body_read(desc, F, *args):
    from rdflib.plugins.stores.sparqlstore import SPARQLStore
    S = Slots(F)
    ep = Endpoint(S)
    model, i = _fill(desc, S, ep, args)
    st = SPARQLStore("http://endpoint.invalid/sparql")
    st._query = ep.query
    gn = desc["view"]
    if gn == "dg":
        # the endpoint's default graph through a plain Graph that carries the default graph's identifier
        from rdflib.graph import DATASET_DEFAULT_GRAPH_ID
        view = Graph(st, identifier=DATASET_DEFAULT_GRAPH_ID)
        gn = "d"
    else:
        view = Graph(st, identifier=G1) if gn == "g1" else ConjunctiveGraph(st)
    content = model[gn]
    ps, po = S.iri(args[i]), S.term(desc["okind"], args[i + 1])
    pp = PRED[desc["ppred"]]
    for shape in desc["shapes"]:
        pat = (ps if shape[0] == "1" else None, pp if shape[1] == "1" else None, po if shape[2] == "1" else None)
        got = list(view.triples(pat))
        want = [t for t in content if match(pat, t)]
        if len(got) != len(dedup(got)):
            return "triples(%s) through the SPARQL store yields a triple twice" % shape
        if not same_set(got, want):
            return "triples(%s) through the SPARQL store differs from the endpoint's graph %s" % (shape, gn)
    if desc.get("len"):
        if len(view) != len(content):
            return "len() through the SPARQL store differs from the endpoint's graph %s" % gn
    if desc.get("contains"):
        t = (ps, pp, po)
        if bool(t in view) != bool(tin(t, content)):
            return "membership through the SPARQL store differs from the endpoint's graph %s" % gn
    if desc.get("contexts") and desc["view"] == "d":
        t = (ps, pp, po)
        names = [c.identifier if isinstance(c, Graph) else c for c in view.contexts(t)]
        want = [G1] if tin(t, model["g1"]) else []
        if not same_set([(n,) for n in names], [(n,) for n in want]):
            return "contexts(triple) through the SPARQL store names the wrong graphs"
    return None


def body_write(desc, F, *args):
    """SPARQLUpdateStore: a history of add / remove (with wildcards) / commit / rollback through a store-backed graph; after every step the
    endpoint's data must be what a local graph would hold (pending writes only after commit or before a read)"""
    from rdflib.plugins.stores.sparqlstore import SPARQLUpdateStore
    S = Slots(F)
    ep = Endpoint(S)
    model, i = _fill(desc, S, ep, args)
    st = SPARQLUpdateStore("http://endpoint.invalid/sparql", "http://endpoint.invalid/update", autocommit=desc["autocommit"],
                           dirty_reads=desc.get("dirty_reads", False))
    st._query = ep.query
    st._update = ep.update
    gn = desc["view"]
    from rdflib.graph import DATASET_DEFAULT_GRAPH_ID
    view = Graph(st, identifier=G1) if gn == "g1" else Graph(st, identifier=DATASET_DEFAULT_GRAPH_ID)
    committed = {k: list(v) for k, v in model.items()}     # what the endpoint must hold
    pending = {k: list(v) for k, v in model.items()}        # what it will hold after commit
    first_terms = None
    for op in desc["ops"]:
        kind = op[0]
        if kind in ("add", "rm"):
            if "same" in op and first_terms is not None:
                # the very same statement as the first write (same terms, hence the same generated text)
                s, o = first_terms
            else:
                s, o = S.iri(args[i]), S.term(op[2], args[i + 1])
                i += 2
                if first_terms is None:
                    first_terms = (s, o)
            pp = PRED[op[1]]
            if kind == "add":
                view.add((s, pp, o))
                if not tin((s, pp, o), pending[gn]):
                    pending[gn] = pending[gn] + [(s, pp, o)]
            else:
                shape = op[3]
                pat = (s if shape[0] == "1" else None, pp if shape[1] == "1" else None, o if shape[2] == "1" else None)
                view.remove(pat)
                pending[gn] = [t for t in pending[gn] if not match(pat, t)]
            if desc["autocommit"]:
                committed = {k: list(v) for k, v in pending.items()}
        elif kind == "commit":
            view.commit()
            committed = {k: list(v) for k, v in pending.items()}
        elif kind == "rollback":
            view.rollback()
            pending = {k: list(v) for k, v in committed.items()}
        elif kind == "read":
            # a read flushes pending writes first (dirty_reads off)
            got = list(view.triples((None, None, None)))
            if not desc.get("dirty_reads", False):
                committed = {k: list(v) for k, v in pending.items()}
            if not same_set(got, committed[gn]):
                return "a read through the update store does not show the graph %s as the endpoint holds it" % gn
        for g in ("d", "g1"):
            if not same_set(ep.content(g), committed[g]):
                return "after %s the endpoint's graph %s is not what the history defines" % (kind, g)
    return None


BODIES = {"read": body_read, "write": body_write}


def untraced():
    from ..driver import default_untraced
    return default_untraced()


def obligations(tier, seed):
    obs = []
    datas = [[("p", "d", "I"), ("p", "g1", "I")], [("p", "d", "L"), ("p", "d", "L")], [("p", "g1", "L"), ("q", "g1", "I")], [("p", "d", "L"), ("p", "g1", "L")]]
    for di, data in enumerate(datas):
        for view in ("d", "g1", "dg"):
            for okind in ("I", "L"):
                if tier == "quick" and okind == "I" and di in (1, 3):
                    continue
                if view == "dg" and (okind == "I" or (tier == "quick" and di in (1, 2))):
                    continue
                tag = "%s/%s/%s" % (",".join("%s@%s%s" % x for x in data), view, okind)
                sig = [("x%d" % i, "i") for i in range(2 * len(data) + 2)]
                for half, shapes in (("a", SHAPES8[:4]), ("b", SHAPES8[4:])):
                    obs.append(dict(oid="read/%s/%s" % (tag, half), family="read",
                                    desc={"data": [list(x) for x in data], "view": view, "okind": okind, "ppred": "p", "shapes": shapes},
                                    sig=sig, budget=300))
                obs.append(dict(oid="read/%s/len-in-contexts" % tag, family="read",
                                desc={"data": [list(x) for x in data], "view": view, "okind": okind, "ppred": "p", "shapes": [], "len": True,
                                      "contains": True, "contexts": True}, sig=sig, budget=300))
    # writes
    ops_cat = {
        "add": [["add", "p", "L"]],
        "add-add": [["add", "p", "L"], ["add", "p", "I"]],
        "rm111": [["rm", "p", "L", "111"]],
        "rm110": [["rm", "p", "L", "110"]],
        "rm001": [["rm", "p", "L", "001"]],
        "rm000": [["rm", "p", "I", "000"]],
        "add-rm111": [["add", "p", "L"], ["rm", "p", "L", "111"]],
        "rm101-add": [["rm", "p", "L", "101"], ["add", "p", "L"]],
        # the same statement written, withdrawn and written again inside one transaction: the queue must keep order and repetitions
        "add-rm111-add": [["add", "p", "L"], ["rm", "p", "L", "111"], ["add", "p", "L"]],
        "rm111-add-rm111": [["rm", "p", "L", "111"], ["add", "p", "L"], ["rm", "p", "L", "111"]],
        # ... and with literally the same terms, so that the three generated statements are textually equal where they should be
        "add-rmsame-addsame": [["add", "p", "L"], ["rm", "p", "L", "111", "same"], ["add", "p", "L", "same"]],
        "rm111-addsame-rmsame": [["rm", "p", "L", "111"], ["add", "p", "L", "same"], ["rm", "p", "L", "111", "same"]],
    }
    wdata = [[("p", "d", "L"), ("p", "g1", "L")], [("p", "g1", "L"), ("p", "g1", "I")]]
    for name, ops in ops_cat.items():
        for view in ("d", "g1"):
            for di, data in enumerate(wdata):
                if tier == "quick" and di == 1 and view == "d":
                    continue
                if len(ops) == 3:
                    # three writes: one endpoint triple, in the graph written to (the cost grows like the Bell numbers in the
                    # number of symbolic triples)
                    if di == 1:
                        continue
                    data = [("p", view, "L")]
                nsym = 2 * len(data) + 2 * sum(1 for o in ops if o[0] in ("add", "rm") and "same" not in o)
                sig = [("x%d" % i, "i") for i in range(nsym)]
                tag = "%s/%s/%s" % (name, view, ",".join("%s@%s%s" % x for x in data))
                obs.append(dict(oid="write/auto/%s" % tag, family="write",
                                desc={"data": [list(x) for x in data], "view": view, "autocommit": True, "ops": ops}, sig=sig, budget=300))
                for ending in ("commit", "rollback", "read"):
                    obs.append(dict(oid="write/queued-%s/%s" % (ending, tag), family="write",
                                    desc={"data": [list(x) for x in data], "view": view, "autocommit": False, "ops": ops + [[ending]]}, sig=sig, budget=300))
    return obs


def bounds(tier):
    return {"read": "endpoint data: 2 symbolic triples over the default graph and one named graph (objects IRIs or falsy-capable literals, by shape); a "
                    "store-backed Graph on the named graph, a ConjunctiveGraph and a Graph carrying the default graph's identifier on the default graph; triples() under all 8 pattern shapes with symbolic "
                    "probe terms, len(), membership, contexts(triple)",
            "write": "SPARQLUpdateStore with autocommit on, and off followed by commit / rollback / a read: 10 operation sequences (add, remove with 5 "
                     "pattern shapes, add+remove, add-remove-add of one statement with fresh and with literally the same terms) on 2 symbolic endpoint triples; after every step the endpoint's graphs equal the model",
            "outside": "HTTP and result formats, blank nodes, initBindings / query() pass-through, LIMIT/OFFSET/ORDERBY attributes, add_graph / "
                       "remove_graph, update() with user text (_insert_named_graph), more than 2 endpoint triples or 2 writes"}


def finding_key(ob, cex, reason):
    return "%s|%s" % (ob["family"], reason)
