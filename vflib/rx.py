"""Engine R — regular-language inclusion between live `re` patterns and transcribed grammar
productions, decided by z3's sequence/regex theory for strings of every length.

`to_z3(pattern)` translates the parse tree (`re._parser.parse`) of a pattern string or compiled
pattern object read from the *live* rdflib module.  Anything the translator does not understand
raises Unsupported, which the caller reports as inconclusive (never as a pass).
"""
import re
import time

try:
    import re._constants as sc
    import re._parser as sre_parse
except ImportError:  # pragma: no cover
    import sre_constants as sc
    import sre_parse

import z3


class Unsupported(Exception):
    pass


def _ch(c):
    return z3.Re(z3.StringVal(chr(c)))


def _rng(a, b):
    return z3.Range(z3.StringVal(chr(a)), z3.StringVal(chr(b)))


MAXCP = 0x2FFFF  # z3's default character universe


def _any():
    return z3.AllChar(z3.ReSort(z3.StringSort()))


def _neg(r):
    return z3.Intersect(_any(), z3.Complement(r))


def _cat(cat, flags):
    if cat == sc.CATEGORY_DIGIT:
        if flags & re.ASCII:
            return _rng(48, 57)
        raise Unsupported("unicode \\d")
    if cat == sc.CATEGORY_SPACE:
        return z3.Union(*[_ch(c) for c in (9, 10, 11, 12, 13, 32)]) if flags & re.ASCII else _unicode_space()
    if cat == sc.CATEGORY_WORD:
        if flags & re.ASCII:
            return z3.Union(_rng(48, 57), _rng(65, 90), _rng(97, 122), _ch(95))
        raise Unsupported("unicode \\w")
    if cat == sc.CATEGORY_NOT_DIGIT:
        return _neg(_cat(sc.CATEGORY_DIGIT, flags))
    if cat == sc.CATEGORY_NOT_SPACE:
        return _neg(_cat(sc.CATEGORY_SPACE, flags))
    if cat == sc.CATEGORY_NOT_WORD:
        return _neg(_cat(sc.CATEGORY_WORD, flags))
    raise Unsupported("category %r" % (cat,))


def _unicode_space():
    cps = [c for c in range(0x3001) if chr(c).isspace()]
    return z3.Union(*[_ch(c) for c in cps])


def _in(items, flags):
    neg = False
    parts = []
    for op, av in items:
        if op == sc.NEGATE:
            neg = True
        elif op == sc.LITERAL:
            parts.append(_ch(av))
        elif op == sc.RANGE:
            parts.append(_rng(av[0], min(av[1], MAXCP)))
        elif op == sc.CATEGORY:
            parts.append(_cat(av, flags))
        else:
            raise Unsupported("in-set op %r" % (op,))
    u = parts[0] if len(parts) == 1 else z3.Union(*parts)
    return _neg(u) if neg else u


def _conv(seq, flags):
    out = []
    items = list(seq)
    i = 0
    while i < len(items):
        op, av = items[i]
        i += 1
        if op == sc.LITERAL:
            if flags & re.IGNORECASE and chr(av).lower() != chr(av).upper():
                out.append(z3.Union(_ch(ord(chr(av).lower())), _ch(ord(chr(av).upper()))))
            else:
                out.append(_ch(av))
        elif op == sc.NOT_LITERAL:
            out.append(_neg(_ch(av)))
        elif op == sc.ANY:
            out.append(_any() if flags & re.DOTALL else _neg(_ch(10)))
        elif op == sc.IN:
            if flags & re.IGNORECASE:
                raise Unsupported("IGNORECASE with character class")
            out.append(_in(av, flags))
        elif op == sc.SUBPATTERN:
            out.append(_conv(av[3], flags))
        elif op == sc.BRANCH:
            out.append(z3.Union(*[_conv(b, flags) for b in av[1]]))
        elif op in (sc.MAX_REPEAT, sc.MIN_REPEAT):
            lo, hi, sub = av
            r = _conv(sub, flags)
            if hi == sc.MAXREPEAT:
                if lo == 0:
                    out.append(z3.Star(r))
                elif lo == 1:
                    out.append(z3.Plus(r))
                else:
                    out.append(z3.Concat(z3.Loop(r, lo, lo), z3.Star(r)))
            elif (lo, hi) == (0, 1):
                out.append(z3.Option(r))
            else:
                out.append(z3.Loop(r, lo, hi))
        elif op == sc.AT:
            if av in (sc.AT_BEGINNING, sc.AT_BEGINNING_STRING) and not out and not flags & re.MULTILINE:
                continue  # whole-string membership is what is decided
            if av == sc.AT_END_STRING and i == len(items):
                continue
            if av == sc.AT_END and i == len(items) and not flags & re.MULTILINE:
                # CPython: `$` also matches just before a newline that ends the string, so with .match()/.search()
                # the pattern accepts the string with that newline appended (fullmatch() does not; users of a
                # pattern that is only ever applied with fullmatch() pass strict_end=True to to_z3)
                if not flags & STRICT_END:
                    out.append(z3.Option(_ch(10)))
                continue
            raise Unsupported("anchor %r" % (av,))
        elif op == sc.ASSERT_NOT:
            # only `(?!\b)` directly after a literal word character is understood: "the next character exists and
            # is a word character" — used by ISO8601_PERIOD_REGEX after 'P'
            direction, sub = av
            sub = list(sub)
            if direction == 1 and len(sub) == 1 and sub[0] == (sc.AT, sc.AT_BOUNDARY) and out:
                word = z3.Union(_rng(48, 57), _rng(65, 90), _rng(97, 122), _ch(95))
                rest = _conv(items[i:], flags)
                out.append(z3.Intersect(rest, z3.Concat(word, z3.Star(_any()))))
                i = len(items)
            else:
                raise Unsupported("negative look-ahead")
        else:
            raise Unsupported("regex op %r" % (op,))
    if not out:
        return z3.Re(z3.StringVal(""))
    return out[0] if len(out) == 1 else z3.Concat(*out)


STRICT_END = 1 << 30  # private flag: `$` is end of string only (the pattern is applied with fullmatch())


def to_z3(pat, extra_flags=0, strict_end=False):
    """the language of whole strings s with pat.match(s) consuming all of s, or consuming all but a final newline
    after a closing `$` (that is: the strings for which `pat.match(s)` succeeds and nothing but what `$` tolerates
    is left over); strict_end=True gives the fullmatch() language"""
    if strict_end:
        extra_flags |= STRICT_END
    if isinstance(pat, str):
        src, flags = pat, re.compile(pat).flags | extra_flags
    else:
        src, flags = pat.pattern, pat.flags | extra_flags
    if flags & re.VERBOSE:
        tree = sre_parse.parse(src, flags & ~STRICT_END)
    else:
        tree = sre_parse.parse(src)
    return _conv(tree, flags)


def lit(s):
    return z3.Re(z3.StringVal(s))


def included(a, b, timeout_ms=60000):
    """is L(a) a subset of L(b)?  -> ('unsat' | 'sat' | 'unknown', witness or None, seconds)"""
    s = z3.String("s")
    sol = z3.Solver()
    sol.set("timeout", timeout_ms)
    sol.add(z3.InRe(s, a))
    sol.add(z3.Not(z3.InRe(s, b)))
    t = time.time()
    r = sol.check()
    dt = time.time() - t
    if r == z3.sat:
        w = sol.model()[s]
        return "sat", w.as_string() if hasattr(w, "as_string") else str(w), dt
    return str(r), None, dt


def unescape_z3(s):
    """z3 prints non-ASCII characters as \\u{XXXX}"""
    return re.sub(r"\\u\{([0-9a-fA-F]+)\}", lambda m: chr(int(m.group(1), 16)), s)


def use_methods(module, name):
    """how the module applies its global compiled pattern `name`: the set of method names in `name.<method>(...)`
    calls, read from the module's current source"""
    import ast
    import inspect
    tree = ast.parse(inspect.getsource(module))
    found = set()
    for node in ast.walk(tree):
        if (isinstance(node, ast.Call) and isinstance(node.func, ast.Attribute) and isinstance(node.func.value, ast.Name)
                and node.func.value.id == name):
            found.add(node.func.attr)
    return found


def accepted_language(module, name):
    """the set of whole strings the module accepts with its pattern `name`, given how it applies it (match() or
    fullmatch(); a trailing `$` tolerates one final newline only under match())"""
    methods = use_methods(module, name) & {"match", "fullmatch", "search", "finditer", "findall", "sub", "split"}
    if not methods:
        raise Unsupported("%s.%s is not applied with a method call in its module any more" % (module.__name__, name))
    if methods - {"match", "fullmatch"}:
        raise Unsupported("%s.%s is applied with %s" % (module.__name__, name, sorted(methods)))
    return to_z3(getattr(module, name), strict_end=methods == {"fullmatch"})
