"""Reference-model helpers shared by the engine-S harnesses.

Everything compares terms with ``==`` only, so under CrossHair each comparison is a fork on
a symbolic equality and under replay it is ordinary rdflib term equality.
"""


def teq(t, u):
    """tuple equality, component-wise, short-circuit (forks on each symbolic ==)"""
    if len(t) != len(u):
        return False
    for a, b in zip(t, u):
        if a is b:
            continue
        if a is None or b is None:
            return False
        if not (a == b):
            return False
    return True


def tin(t, lst):
    for u in lst:
        if teq(t, u):
            return True
    return False


def count(t, lst):
    n = 0
    for u in lst:
        if teq(t, u):
            n += 1
    return n


def set_add(lst, t):
    if tin(t, lst):
        return lst
    return lst + [t]


def match(pat, t):
    """pat: tuple with None wildcards"""
    for a, b in zip(pat, t):
        if a is None:
            continue
        if not (a == b):
            return False
    return True


def set_remove(lst, pat):
    return [t for t in lst if not match(pat, t)]


def same_set(got, exp):
    """exp has no duplicates; got must be a permutation of it (so: no duplicates in got)."""
    if len(got) != len(exp):
        return False
    for t in exp:
        if count(t, got) != 1:
            return False
    return True


def same_multiset(got, exp):
    if len(got) != len(exp):
        return False
    for t in exp:
        if count(t, got) != count(t, exp):
            return False
    return True


def dedup(lst):
    out = []
    for t in lst:
        if not tin(t, out):
            out.append(t)
    return out


def pat_of(bits, t):
    """bits: 3-char string, '1' = wildcard"""
    return tuple(None if b == "1" else x for b, x in zip(bits, t))


SHAPES8 = ["000", "001", "010", "011", "100", "101", "110", "111"]
