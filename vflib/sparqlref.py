"""Reference (bottom-up) evaluator of the SPARQL 1.1 algebra over a small harness-level query AST,
plus the renderer that turns the same AST into SPARQL text for rdflib's real parser.

AST (JSON-able lists)
  term     ["v", name] | ["c", i] (i-th symbolic constant) | ["iri", "p"] (concrete IRI from IRIS)
           | ["val", obj] (only after EXISTS substitution)
  element  ["tp", s, p, o] | ["opt", group] | ["minus", group] | ["union", group, group]
           | ["filter", expr] | ["bind", expr, var] | ["values", [vars], [[term|None, ...], ...]]
           | ["sub", [vars]|"*", group, distinct] | ["graph", term, group] | ["group", group]
  group    [element, ...]
  expr     term | ["=", a, b] | ["!=", a, b] | ["bound", var] | ["!", e] | ["&&", a, b] | ["||", a, b]
           | ["sameTerm", a, b] | ["isIRI", a] | ["coalesce", a, ...] | ["if", c, a, b]
           | ["exists", group] | ["notexists", group]
Data: {"default": [(s, "p", o), ...], "named": {"g1": [...], "g2": [...]}}; predicates are names.
Solutions are dicts var -> term; multisets are lists.
"""
from rdflib import Literal, URIRef

IRIS = {"p": URIRef("urn:p"), "q": URIRef("urn:q"), "r": URIRef("urn:r"),
        "g1": URIRef("urn:g1"), "g2": URIRef("urn:g2"), "g3": URIRef("urn:g3")}
PLACEHOLDER = "urn:x-sym:%d"


class Err(Exception):
    pass


# --------------------------------------------------------------------------- rendering
def r_term(t):
    if t[0] == "v":
        return "?" + t[1]
    if t[0] == "c":
        return "<" + PLACEHOLDER % t[1] + ">"
    if t[0] == "iri":
        return "<%s>" % IRIS[t[1]]
    raise AssertionError(t)


def r_expr(e):
    k = e[0]
    if k in ("v", "c", "iri"):
        return r_term(e)
    if k in ("=", "!=", "&&", "||"):
        return "(%s %s %s)" % (r_expr(e[1]), k, r_expr(e[2]))
    if k == "bound":
        return "bound(?%s)" % e[1]
    if k == "!":
        return "(!%s)" % r_expr(e[1])
    if k == "sameTerm":
        return "sameTerm(%s, %s)" % (r_expr(e[1]), r_expr(e[2]))
    if k == "isIRI":
        return "isIRI(%s)" % r_expr(e[1])
    if k == "coalesce":
        return "COALESCE(%s)" % ", ".join(r_expr(x) for x in e[1:])
    if k == "if":
        return "IF(%s, %s, %s)" % (r_expr(e[1]), r_expr(e[2]), r_expr(e[3]))
    if k == "exists":
        return "EXISTS %s" % r_group(e[1])
    if k == "notexists":
        return "NOT EXISTS %s" % r_group(e[1])
    raise AssertionError(e)


def r_group(g):
    out = []
    for el in g:
        k = el[0]
        if k == "tp":
            out.append("%s %s %s ." % (r_term(el[1]), r_term(el[2]), r_term(el[3])))
        elif k == "opt":
            out.append("OPTIONAL %s" % r_group(el[1]))
        elif k == "minus":
            out.append("MINUS %s" % r_group(el[1]))
        elif k == "union":
            out.append("%s UNION %s" % (r_group(el[1]), r_group(el[2])))
        elif k == "filter":
            out.append("FILTER(%s)" % r_expr(el[1]))
        elif k == "bind":
            out.append("BIND(%s AS ?%s)" % (r_expr(el[1]), el[2]))
        elif k == "values":
            rows = " ".join("(%s)" % " ".join("UNDEF" if c is None else r_term(c) for c in row) for row in el[2])
            out.append("VALUES (%s) { %s }" % (" ".join("?" + v for v in el[1]), rows))
        elif k == "sub":
            proj = "*" if el[1] == "*" else " ".join("?" + v for v in el[1])
            out.append("{ SELECT %s%s WHERE %s }" % ("DISTINCT " if el[3] else "", proj, r_group(el[2])))
        elif k == "graph":
            out.append("GRAPH %s %s" % (r_term(el[1]), r_group(el[2])))
        elif k == "group":
            out.append(r_group(el[1]))
        else:
            raise AssertionError(el)
    return "{ " + " ".join(out) + " }"


def render(form, group, proj="*", template=None, distinct=False):
    if form == "select":
        p = "*" if proj == "*" else " ".join("?" + v for v in proj)
        return "SELECT %s%s WHERE %s" % ("DISTINCT " if distinct else "", p, r_group(group))
    if form == "ask":
        return "ASK %s" % r_group(group)
    if form == "construct":
        t = " ".join("%s %s %s ." % (r_term(s), r_term(p), r_term(o)) for s, p, o in template)
        return "CONSTRUCT { %s } WHERE %s" % (t, r_group(group))
    raise AssertionError(form)


# --------------------------------------------------------------------------- variables
def vars_in_scope(g):
    """in-scope variables of a group (SPARQL 18.2.1), in first-occurrence order"""
    out = []

    def add(v):
        if v not in out:
            out.append(v)

    for el in g:
        k = el[0]
        if k == "tp":
            for t in el[1:4]:
                if t[0] == "v":
                    add(t[1])
        elif k in ("opt", "group"):
            for v in vars_in_scope(el[1]):
                add(v)
        elif k == "union":
            for v in vars_in_scope(el[1]) + vars_in_scope(el[2]):
                add(v)
        elif k == "bind":
            add(el[2])
        elif k == "values":
            for v in el[1]:
                add(v)
        elif k == "sub":
            for v in (vars_in_scope(el[2]) if el[1] == "*" else el[1]):
                add(v)
        elif k == "graph":
            if el[1][0] == "v":
                add(el[1][1])
            for v in vars_in_scope(el[2]):
                add(v)
    return out


# --------------------------------------------------------------------------- evaluation
class Ref:
    def __init__(self, data, consts):
        self.data = data
        self.consts = consts

    def term(self, t, mu):
        k = t[0]
        if k == "v":
            return mu.get(t[1])
        if k == "c":
            return self.consts[t[1]]
        if k == "iri":
            return IRIS[t[1]]
        if k == "val":
            return t[1]
        raise AssertionError(t)

    # -- expressions ---------------------------------------------------------------
    def ev(self, e, mu, active):
        k = e[0]
        if k in ("v", "c", "iri", "val"):
            v = self.term(e, mu)
            if v is None:
                raise Err()
            return v
        if k in ("=", "!=", "sameTerm"):
            a = self.ev(e[1], mu, active)
            b = self.ev(e[2], mu, active)
            if isinstance(a, bool) or isinstance(b, bool):
                if not (isinstance(a, bool) and isinstance(b, bool)):
                    if k == "sameTerm":
                        return False
                    # boolean literal vs IRI: RDFterm-equal is false, != true
                    return k == "!="
                eq = a == b
            else:
                eq = (a is b) or (a == b)
            return (not eq) if k == "!=" else bool(eq)
        if k == "bound":
            return mu.get(e[1]) is not None
        if k == "!":
            return not self.ebv(e[1], mu, active)
        if k == "&&":
            try:
                a = self.ebv(e[1], mu, active)
            except Err:
                a = None
            try:
                b = self.ebv(e[2], mu, active)
            except Err:
                b = None
            if a is False or b is False:
                return False
            if a is None or b is None:
                raise Err()
            return True
        if k == "||":
            try:
                a = self.ebv(e[1], mu, active)
            except Err:
                a = None
            try:
                b = self.ebv(e[2], mu, active)
            except Err:
                b = None
            if a is True or b is True:
                return True
            if a is None or b is None:
                raise Err()
            return False
        if k == "isIRI":
            a = self.ev(e[1], mu, active)
            return isinstance(a, URIRef)
        if k == "coalesce":
            for x in e[1:]:
                try:
                    return self.ev(x, mu, active)
                except Err:
                    continue
            raise Err()
        if k == "if":
            c = self.ebv(e[1], mu, active)
            return self.ev(e[2] if c else e[3], mu, active)
        if k in ("exists", "notexists"):
            sols = self.group(subst_group(e[1], mu), active)
            return (len(sols) > 0) == (k == "exists")
        raise AssertionError(e)

    def ebv(self, e, mu, active):
        v = self.ev(e, mu, active)
        if isinstance(v, bool):
            return v
        if isinstance(v, Literal):
            if v:  # numeric literal: EBV is value != 0 (only integer literals occur in the data)
                return True
            return False
        raise Err()  # EBV of an IRI is a type error

    def ebv_or_false(self, e, mu, active):
        try:
            return self.ebv(e, mu, active)
        except Err:
            return False

    # -- patterns -------------------------------------------------------------------
    def triples(self, active):
        if active == "default":
            return self.data["default"]
        return self.data["named"].get(active, [])

    def tp(self, el, active):
        out = []
        for s, p, o in self.triples(active):
            mu = {}
            ok = True
            for pt, val in ((el[1], s), (el[2], IRIS[p]), (el[3], o)):
                if pt[0] == "v":
                    if pt[1] in mu:
                        if not (mu[pt[1]] is val or mu[pt[1]] == val):
                            ok = False
                            break
                    else:
                        mu[pt[1]] = val
                else:
                    c = self.term(pt, {})
                    if not (c is val or c == val):
                        ok = False
                        break
            if ok:
                out.append(mu)
        return out

    def group(self, g, active):
        """18.2.2.6 translation + 18.5 evaluation of one group graph pattern"""
        G = [{}]
        filters = []
        for el in g:
            k = el[0]
            if k == "filter":
                filters.append(el[1])
            elif k == "opt":
                inner = el[1]
                fs = [x[1] for x in inner if x[0] == "filter"]
                rest = [x for x in inner if x[0] != "filter"]
                A = self.group(rest, active)
                G = leftjoin(G, A, lambda m: all(self.ebv_or_false(f, m, active) for f in fs))
            elif k == "minus":
                G = minus(G, self.group(el[1], active))
            elif k == "bind":
                out = []
                for mu in G:
                    try:
                        v = self.ev(el[1], mu, active)
                        m2 = dict(mu)
                        m2[el[2]] = v
                        out.append(m2)
                    except Err:
                        out.append(mu)
                G = out
            elif k == "tp":
                G = join(G, self.tp(el, active))
            elif k == "union":
                G = join(G, self.group(el[1], active) + self.group(el[2], active))
            elif k == "group":
                G = join(G, self.group(el[1], active))
            elif k == "values":
                rows = []
                for row in el[2]:
                    mu = {}
                    for v, c in zip(el[1], row):
                        if c is not None:
                            mu[v] = self.term(c, {})
                    rows.append(mu)
                G = join(G, rows)
            elif k == "sub":
                sols = self.group(el[2], active)
                vs = vars_in_scope(el[2]) if el[1] == "*" else el[1]
                sols = [{v: m[v] for v in vs if v in m} for m in sols]
                if el[3]:
                    sols = distinct(sols)
                G = join(G, sols)
            elif k == "graph":
                t = el[1]
                if t[0] == "v":
                    sols = []
                    for name in self.data["named"]:
                        for m in self.group(el[2], name):
                            gv = IRIS[name]
                            if t[1] in m:
                                if not (m[t[1]] is gv or m[t[1]] == gv):
                                    continue
                                sols.append(m)
                            else:
                                m2 = dict(m)
                                m2[t[1]] = gv
                                sols.append(m2)
                else:
                    name = t[1]
                    sols = self.group(el[2], name) if name in self.data["named"] else []
                G = join(G, sols)
            else:
                raise AssertionError(el)
        if filters:
            G = [mu for mu in G if all(self.ebv_or_false(f, mu, active) for f in filters)]
        return G


def compatible(m1, m2):
    for k, v in m1.items():
        if k in m2:
            w = m2[k]
            if not (v is w or v == w):
                return False
    return True


def merge(m1, m2):
    m = dict(m1)
    m.update(m2)
    return m


def join(A, B):
    return [merge(a, b) for a in A for b in B if compatible(a, b)]


def leftjoin(A, B, cond):
    out = []
    for a in A:
        hit = False
        for b in B:
            if compatible(a, b):
                m = merge(a, b)
                if cond(m):
                    out.append(m)
                    hit = True
        if not hit:
            out.append(a)
    return out


def minus(A, B):
    out = []
    for a in A:
        drop = False
        for b in B:
            if any(k in b for k in a) and compatible(a, b):
                drop = True
                break
        if not drop:
            out.append(a)
    return out


def same_solution(m1, m2):
    if len(m1) != len(m2):
        return False
    for k, v in m1.items():
        if k not in m2:
            return False
        w = m2[k]
        if not (v is w or v == w):
            return False
    return True


def distinct(sols):
    out = []
    for m in sols:
        if not any(same_solution(m, n) for n in out):
            out.append(m)
    return out


def same_solutions(got, exp):
    """multiset equality of two lists of solutions"""
    if len(got) != len(exp):
        return False
    for m in exp:
        n1 = sum(1 for x in got if same_solution(x, m))
        n2 = sum(1 for x in exp if same_solution(x, m))
        if n1 != n2:
            return False
    return True


# --------------------------------------------------------------------------- EXISTS substitution
def subst_term(t, mu):
    if t[0] == "v" and mu.get(t[1]) is not None:
        return ["val", mu[t[1]]]
    return t


def subst_expr(e, mu):
    k = e[0]
    if k in ("v",):
        return subst_term(e, mu)
    if k in ("c", "iri", "val"):
        return e
    if k == "bound":
        return e if mu.get(e[1]) is None else ["=", ["val", mu[e[1]]], ["val", mu[e[1]]]]
    if k in ("exists", "notexists"):
        return [k, subst_group(e[1], mu)]
    return [k] + [subst_expr(x, mu) for x in e[1:]]


def subst_group(g, mu):
    out = []
    for el in g:
        k = el[0]
        if k == "tp":
            out.append(["tp"] + [subst_term(t, mu) for t in el[1:4]])
        elif k in ("opt", "minus", "group"):
            out.append([k, subst_group(el[1], mu)])
        elif k == "union":
            out.append([k, subst_group(el[1], mu), subst_group(el[2], mu)])
        elif k == "filter":
            out.append([k, subst_expr(el[1], mu)])
        elif k == "graph":
            out.append([k, subst_term(el[1], mu), subst_group(el[2], mu)])
        else:
            out.append(el)  # bind / values / sub-select inside EXISTS are not generated
    return out
