"""Opaque symbolic RDF terms (engine S) and the term factories used by every harness.

A symbolic term is (kind, identity k) with k a CrossHair symbolic int.  __hash__ is the
constant 0, so rdflib's real dict/set based code falls back to __eq__, which returns a
symbolic bool and forks the path instead of realising k.  Truthiness is k != 0, so k == 0
is "the falsy term" (Literal(""), Literal(0), Literal(False) in the real library).

The same harness body is executed a second time outside CrossHair with RealFactory, which
maps identities to genuine rdflib terms; only a violation that reproduces there is reported.
"""
from rdflib.term import Node, URIRef, BNode, Literal
from rdflib.namespace import XSD

# set by the engine while a CrossHair path is running; see note_control()
CONTROL_SEEN = [0]


def _fork(b):
    """Decide the symbolic bool here (dict/set lookups would do it anyway) so that a CrossHair
    control exception raised while forking is noticed even if rdflib's bare ``except:``
    swallows it; engine.guard() then abandons the path as unexplored."""
    try:
        if b:
            return True
        return False
    except BaseException as e:
        if not isinstance(e, Exception):
            CONTROL_SEEN[0] += 1
        raise


class SymNode(Node):
    """Kind-less opaque term (stores, graphs, paths, collections only need ==, hash, bool)."""

    __slots__ = ("k",)

    def __init__(self, k):
        self.k = k

    def __eq__(self, o):
        if o is self:
            return True
        if type(o) is not SymNode:
            return False
        return _fork(self.k == o.k)

    def __ne__(self, o):
        return not self.__eq__(o)

    def __hash__(self):
        return 0

    def __bool__(self):
        return _fork(self.k != 0)

    def n3(self, namespace_manager=None):
        return "<sym>"

    def __getnewargs__(self):
        return (self.k,)

    def __repr__(self):
        return "SymNode"


class SymIRI(URIRef):
    def __new__(cls, k):
        inst = str.__new__(cls, "urn:x-sym:iri")
        inst.k = k
        return inst

    def __eq__(self, o):
        if o is self:
            return True
        if type(o) is not SymIRI:
            return False
        return _fork(self.k == o.k)

    def __ne__(self, o):
        return not self.__eq__(o)

    def __hash__(self):
        return 0

    def __lt__(self, o):
        if type(o) is SymIRI:
            return self.k < o.k
        return URIRef.__lt__(self, o)

    def __gt__(self, o):
        if type(o) is SymIRI:
            return self.k > o.k
        return URIRef.__gt__(self, o)

    def __le__(self, o):
        if type(o) is SymIRI:
            return self.k <= o.k
        return URIRef.__le__(self, o)

    def __ge__(self, o):
        if type(o) is SymIRI:
            return self.k >= o.k
        return URIRef.__ge__(self, o)

    def __bool__(self):
        return True

    def __reduce__(self):
        return (SymIRI, (self.k,))

    def __repr__(self):
        return "SymIRI"


class SymBNode(BNode):
    def __new__(cls, k):
        inst = str.__new__(cls, "symbnode")
        inst.k = k
        return inst

    def __eq__(self, o):
        if o is self:
            return True
        if type(o) is not SymBNode:
            return False
        return _fork(self.k == o.k)

    def __ne__(self, o):
        return not self.__eq__(o)

    def __hash__(self):
        return 0

    def __lt__(self, o):
        if type(o) is SymBNode:
            return self.k < o.k
        return BNode.__lt__(self, o)

    def __gt__(self, o):
        if type(o) is SymBNode:
            return self.k > o.k
        return BNode.__gt__(self, o)

    def __bool__(self):
        return True

    def __reduce__(self):
        return (SymBNode, (self.k,))

    def __repr__(self):
        return "SymBNode"


class SymIntLit(Literal):
    """xsd:integer literal whose value is the symbolic int k (lexical form not modelled)."""

    def __new__(cls, k, j=0):
        """k: the value; j: a 'spelling' identity — literals with equal k and different j are value-equal but distinct
        terms (1 vs "1.0"^^xsd:decimal); j is the concrete 0 unless a harness asks for spellings"""
        inst = str.__new__(cls, "0")
        inst.k = k
        inst.j = j
        inst._value = k
        inst._datatype = XSD.integer
        inst._language = None
        inst._ill_typed = False
        return inst

    def __eq__(self, o):
        if o is self:
            return True
        if type(o) is not SymIntLit:
            return False
        if not _fork(self.k == o.k):
            return False
        if self.j is o.j:
            return True
        return _fork(self.j == o.j)

    def __ne__(self, o):
        return not self.__eq__(o)

    def __hash__(self):
        return 0

    def __bool__(self):
        return _fork(self.k != 0)

    def __reduce__(self):
        return (SymIntLit, (self.k, self.j))

    def __repr__(self):
        return "SymIntLit"


class SymFactory:
    symbolic = True

    def node(self, k):
        return SymNode(k)

    def iri(self, k):
        return SymIRI(k)

    def bnode(self, k):
        return SymBNode(k)

    def lit(self, k):
        return SymIntLit(k)

    def lit2(self, k, j):
        return SymIntLit(k, j)

    def key(self, t):
        """identity of a term produced by this factory (or None for foreign terms)"""
        return getattr(t, "k", None)


_OFF = 10 ** 11


class RealFactory:
    """identity -> genuine rdflib term.  Distinct k give distinct terms, equal k equal terms,
    integer order of k = string order of the IRI / value order of the literal."""

    symbolic = False

    def __init__(self, falsy="str"):
        self.falsy = falsy

    def node(self, k):
        if k == 0:
            return {"str": Literal(""), "int": Literal(0), "bool": Literal(False)}[self.falsy]
        return URIRef("urn:x:%012d" % (k + _OFF))

    def iri(self, k):
        return URIRef("urn:x:%012d" % (k + _OFF))

    def bnode(self, k):
        return BNode("b%012d" % (k + _OFF))

    def lit(self, k):
        return Literal(int(k))

    def lit2(self, k, j):
        """value k, spelling j: j == 0 the integer literal, otherwise a decimal with |j| trailing zeros (value-equal, distinct term)"""
        from decimal import Decimal
        if j == 0:
            return Literal(int(k))
        return Literal("%d.%s" % (k, "0" * min(abs(int(j)), 6)), datatype=XSD.decimal)

    def key(self, t):
        return t


SYM = SymFactory()
