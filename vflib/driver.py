"""vf driver: enumerate obligations -> workers (CrossHair / z3) -> classify -> replay -> evidence."""
import importlib
import json
import multiprocessing as mp
import os
import sys
import time
import traceback

ROOT = os.path.dirname(os.path.dirname(os.path.abspath(__file__)))
OUT = os.environ.get("VF_OUT", os.path.join(ROOT, "out"))
# runs against a scratch checkout (VF_REPO) must not overwrite the evidence of the checks on /repo
EVID = os.path.join(OUT, "evidence") if os.environ.get("VF_REPO") else os.path.join(ROOT, "evidence")
NPROC = int(os.environ.get("VF_JOBS", "0")) or min(16, os.cpu_count() or 4)
FALSY = ("str", "int", "bool")


def load_prop(pid):
    return importlib.import_module("vflib.props.%s" % pid.lower())


# ----------------------------------------------------------------------------- worker side
# receiver stubs of the K kernels (stand-ins for str subclasses / records that cannot carry symbolic content): code that asks
# a stub for something the real object has and the stub lacks is outside the harness, not a violation
STUB_CLASSES = ("Rec", "Stub", "Loc", "TD", "Tok", "WStr",
                # C16: recorder terms, recorded XML tree / generator, module stand-ins, result record, stream
                "RecTerm", "RecURI", "RecLit", "RecBNode", "RecGen", "El", "_EtreeShim", "_JsonShim", "_Res", "_Stream", "_RecLit", "_RdflibShim",
                # C06: recording graph / dataset / store stand-ins, JSON line, source, output
                "StubDS", "StubCG", "StubCtx", "StubStore", "_Line", "_Json", "_Source", "_Out", "HBNode", "TrixGraph", "_TrixStore", "_ListMap", "_Loc")


class HarnessLimit(Exception):
    """raised by a harness body when the code under test no longer has the shape the harness can drive"""


def _stub_limit(e):
    if isinstance(e, HarnessLimit):
        return True
    if isinstance(e, AttributeError):
        import re
        m = re.match(r"'(\w+)' object has no attribute '(\w+)'", str(e))
        if m and m.group(1) in STUB_CLASSES:
            return True
        # k-eq-numeric / k-literal-eq build Literal instances without the constructor and fill the private slots by name:
        # a renamed slot is a limit of the harness
        return bool(m and m.group(1) == "Literal" and m.group(2).startswith("_"))
    if isinstance(e, TypeError):
        # "object of type 'RecLit' has no len()", "'RecLit' object is not subscriptable", "unsupported operand type(s) for +: 'RecURI' and
        # 'str'", ...: an operation the real (str-based) object supports and the stand-in does not
        import re
        return any(n in STUB_CLASSES for n in re.findall(r"'(\w+)'", str(e)))
    return False


def _guard(fn):
    from .symterms import CONTROL_SEEN

    def g(*args):
        CONTROL_SEEN[0] = 0
        try:
            r = fn(*args)
        except Exception as e:  # never BaseException: CrossHair steers with those
            if _stub_limit(e):
                from crosshair.util import UnexploredPath
                raise UnexploredPath("the code under test uses a part of the receiver's interface that the harness stub lacks: %s" % e)
            r = "unexpected exception %s" % type(e).__name__
        if CONTROL_SEEN[0]:
            from crosshair.util import UnexploredPath
            raise UnexploredPath("a CrossHair control exception was swallowed by the code under test")
        return r

    return g


def default_untraced():
    from rdflib.namespace import NamespaceManager
    return [NamespaceManager, NamespaceManager.bind]


def replay_body(pm, ob, cex, falsy="str"):
    """Run the harness body outside CrossHair on genuine rdflib terms -> None | reason."""
    from .symterms import RealFactory
    body = pm.BODIES[ob["family"]]
    names = [n for n, _ in ob["sig"]]
    args = [cex[n] for n in names]
    try:
        return body(ob["desc"], RealFactory(falsy), *args)
    except Exception as e:
        if _stub_limit(e):
            return None
        return "unexpected exception %s: %s" % (type(e).__name__, str(e)[:200])


def _work(pid, ob, conn):
    t0 = time.time()
    res = {"oid": ob["oid"], "family": ob["family"]}
    try:
        pm = load_prop(pid)
        if ob.get("runner") == "custom":
            res.update(pm.run_custom(ob))
        else:
            from . import engine
            from .symterms import SYM
            body = pm.BODIES[ob["family"]]
            desc = ob["desc"]
            g = _guard(lambda *a: body(desc, SYM, *a))
            engine.install()
            engine.untrace(pm.untraced() if hasattr(pm, "untraced") else default_untraced())
            if hasattr(pm, "patches"):
                import crosshair.core as _core
                _core._PATCH_REGISTRATIONS.update(pm.patches())
            mod = engine.make_entry(ob["oid"], ob["sig"], ob.get("pre", ()), ob.get("raises", ()))
            main = engine.analyze(mod, g, ob["budget"], twin=False, per_path=ob.get("per_path"))
            res.update(main)
            tw = None
            if main["verdict"] == "confirmed":
                tw = engine.analyze(mod, g, ob.get("twin_budget", min(60, ob["budget"])), twin=True)
                ok = False
                if tw["verdict"] == "refuted" and tw["cex"] is not None:
                    ok = replay_body(pm, ob, tw["cex"]) is None
                res["twin"] = {"verdict": tw["verdict"], "replayed_ok": ok, "cex": tw["cex"]}
                res["paths"] += tw["paths"]
                res["queries"] += tw["queries"]
                res["solver_s"] += tw["solver_s"]
            if main["verdict"] == "refuted":
                rep = None
                if main["cex"] is not None:
                    for f in FALSY:
                        r = replay_body(pm, ob, main["cex"], f)
                        if r is not None:
                            rep = {"falsy": f, "reason": r}
                            break
                res["replay"] = rep
                ob2 = pm.residual(ob) if (rep is not None and hasattr(pm, "residual")) else None
                if ob2 is not None:
                    d2 = ob2["desc"]
                    g2 = _guard(lambda *a: body(d2, SYM, *a))
                    r2 = engine.analyze(mod, g2, ob["budget"], twin=False, per_path=ob.get("per_path"))
                    rep2 = None
                    if r2["verdict"] == "refuted" and r2["cex"] is not None:
                        for f in FALSY:
                            rr = replay_body(pm, ob2, r2["cex"], f)
                            if rr is not None:
                                rep2 = {"falsy": f, "reason": rr}
                                break
                    res["residual"] = {"verdict": r2["verdict"], "cex": r2["cex"], "replay": rep2, "detail": r2.get("detail")}
                    res["paths"] += r2["paths"]
                    res["queries"] += r2["queries"]
                    res["solver_s"] += r2["solver_s"]
            try:
                os.unlink(mod.__vf_path__)
            except OSError:
                pass
    except BaseException as e:
        res["verdict"] = "error"
        res["detail"] = "worker crash %r\n%s" % (e, traceback.format_exc()[-3000:])
    res["wall_s"] = round(time.time() - t0, 2)
    try:
        conn.send(res)
    finally:
        conn.close()


# ----------------------------------------------------------------------------- scheduler
def run_all(pid, obs, log=print):
    """Fork one process per obligation, at most NPROC at a time, longest budget first."""
    ctx = mp.get_context("fork")
    pending = sorted(obs, key=lambda o: -o["budget"])
    running = []
    results = {}
    total = len(pending)
    done = 0
    while pending or running:
        while pending and len(running) < NPROC:
            ob = pending.pop(0)
            pc, cc = ctx.Pipe(duplex=False)
            p = ctx.Process(target=_work, args=(pid, ob, cc), daemon=True)
            p.start()
            cc.close()
            running.append((p, pc, ob, time.time()))
        time.sleep(0.05)
        still = []
        for p, pc, ob, t0 in running:
            res = None
            if pc.poll():
                try:
                    res = pc.recv()
                except EOFError:
                    res = {"oid": ob["oid"], "family": ob["family"], "verdict": "error",
                           "detail": "worker died (exit %s)" % p.exitcode}
                p.join(5)
            elif not p.is_alive():
                res = {"oid": ob["oid"], "family": ob["family"], "verdict": "error",
                       "detail": "worker died (exit %s)" % p.exitcode}
            elif time.time() - t0 > 2.5 * ob["budget"] + 90:
                p.kill()
                p.join(5)
                res = {"oid": ob["oid"], "family": ob["family"], "verdict": "inconclusive",
                       "detail": "hard wall-clock limit", "wall_s": round(time.time() - t0, 1)}
            if res is None:
                still.append((p, pc, ob, t0))
            else:
                done += 1
                results[ob["oid"]] = res
                v = res.get("verdict")
                if v not in ("confirmed",) or os.environ.get("VF_VERBOSE"):
                    log("  [%d/%d] %s: %s %s" % (done, total, ob["oid"], v, (res.get("detail") or "")[:160].replace("\n", " ")))
        running = still
    return results


# ----------------------------------------------------------------------------- findings
def load_findings():
    path = os.path.join(ROOT, "known_findings.jsonl")
    out = []
    if os.path.exists(path):
        for line in open(path):
            line = line.strip()
            if line and not line.startswith("#"):
                out.append(json.loads(line))
    return out


def write_replay(pid, ob, cex, falsy, reason):
    d = os.path.join(OUT, "replay", pid)
    os.makedirs(d, exist_ok=True)
    safe = "".join(c if c.isalnum() else "_" for c in ob["oid"])[:100]
    path = os.path.join(d, safe + ".py")
    with open(path, "w") as f:
        f.write("#!/verif/.venv/bin/python\n"
                "# replay of a solver counterexample on the real library (no CrossHair involved)\n"
                "# expected: prints the violated check and exits 1 while the defect is present\n"
                "import json, sys\nsys.path.insert(0, %r)\n"
                "from vflib.driver import replay_main\n"
                "sys.exit(replay_main(%r, json.loads(%r), json.loads(%r), %r, %r))\n"
                % (ROOT, pid, json.dumps(ob), json.dumps(cex), falsy, reason))
    os.chmod(path, 0o755)
    return path


def replay_main(pid, ob, cex, falsy, reason):
    pm = load_prop(pid)
    if ob.get("runner") == "custom":
        r = pm.replay_custom(ob, cex)
    else:
        cex = {k: (tuple(v) if isinstance(v, list) else v) for k, v in cex.items()}
        r = replay_body(pm, ob, cex, falsy)
    print("property %s obligation %s" % (pid, ob["oid"]))
    print("counterexample:", cex, "falsy-term kind:", falsy)
    print("result on the real library:", r)
    return 1 if r is not None else 0


# ----------------------------------------------------------------------------- check
def check(pid, tier, seed, only=None):
    t0 = time.time()
    pm = load_prop(pid)
    obs = pm.obligations(tier, seed)
    seen_ids, uniq = set(), []
    for o in obs:
        if o["oid"] not in seen_ids:
            seen_ids.add(o["oid"])
            uniq.append(o)
    obs = uniq
    if only:
        obs = [o for o in obs if only in o["oid"]]
    for o in obs:
        o.setdefault("budget", 120)
    import rdflib
    print("%s %s: %d obligations on %d workers (rdflib from %s)" % (pid, tier, len(obs), NPROC, os.path.dirname(os.path.dirname(rdflib.__file__))), flush=True)
    results = run_all(pid, obs, log=lambda s: print(s, flush=True))
    os.makedirs(os.path.join(OUT, "results"), exist_ok=True)
    with open(os.path.join(OUT, "results", "%s_%s.json" % (pid, tier)), "w") as f:
        json.dump(results, f, indent=1, default=str)
    findings = load_findings()
    known = [f for f in findings if f.get("property") == pid and f.get("status", "known") == "known"]
    byid = {o["oid"]: o for o in obs}
    n = dict(confirmed=0, refuted=0, inconclusive=0, error=0)
    violations, knowns, inconc, harness_err = [], [], [], []
    traces = 0
    for oid, r in sorted(results.items()):
        ob = byid[oid]
        v = r.get("verdict")
        if v == "confirmed":
            tw = r.get("twin")
            if tw is not None and not tw.get("replayed_ok") and tw.get("verdict") in ("pre_unsat", "inconclusive"):
                # the twin ran out of its (short) budget before one path reached the end: reachability is not shown, which is
                # not evidence of vacuity (a vacuous precondition makes the main run pre_unsat too, not confirmed)
                r["verdict"] = "inconclusive"
                r["detail"] = "confirmed, but the reachability twin did not finish a path within its budget"
                n["inconclusive"] += 1
                inconc.append(oid)
                continue
            if tw is not None and not tw.get("replayed_ok"):
                harness_err.append("%s: reachability twin failed (%s)" % (oid, tw.get("verdict")))
                r["verdict"] = v = "error"
                n["error"] += 1
                continue
            if tw is not None:
                traces += 1
            n["confirmed"] += 1
        elif v == "refuted":
            rep = r.get("replay")
            if rep is None:
                # CrossHair counterexample that the real library does not reproduce
                r["verdict"] = "inconclusive"
                r["detail"] = "counterexample did not reproduce on the real library: %s" % (r.get("cex"),)
                n["inconclusive"] += 1
                inconc.append(oid)
                continue
            traces += 1
            n["refuted"] += 1
            key = pm.finding_key(ob, r.get("cex"), rep["reason"])
            r["finding_key"] = key
            hit = [f for f in known if f.get("key") == key]
            if hit:
                knowns.append((oid, key, hit[0]))
                rs = r.get("residual")
                if rs is not None:
                    # same obligation against an oracle that models the recorded defect
                    if rs["verdict"] == "refuted" and rs.get("replay"):
                        ob2 = pm.residual(ob)
                        key2 = pm.finding_key(ob2, rs["cex"], rs["replay"]["reason"])
                        path = write_replay(pid, dict(ob2, oid=ob["oid"] + "#residual"), rs["cex"], rs["replay"]["falsy"], rs["replay"]["reason"])
                        violations.append((oid + "#residual", key2, path, rs["replay"]["reason"]))
                    elif rs["verdict"] != "confirmed":
                        inconc.append(oid + "#residual")
            else:
                path = write_replay(pid, ob, r["cex"], rep["falsy"], rep["reason"])
                violations.append((oid, key, path, rep["reason"]))
        elif v == "error":
            n["error"] += 1
            harness_err.append("%s: %s" % (oid, (r.get("detail") or "")[:300]))
        else:
            r["verdict"] = "inconclusive"
            n["inconclusive"] += 1
            inconc.append(oid)
    wall = time.time() - t0
    seen = set()
    for oid, key, f in knowns:
        if key not in seen:
            seen.add(key)
            print("KNOWN-FINDING: property=%s %s [%s]" % (pid, f.get("what", key), key))
    for oid, key, path, reason in violations:
        print("VIOLATION property=%s replay=%s" % (pid, path))
        print("  obligation %s: %s" % (oid, reason))
    if inconc:
        print("inconclusive (%d): %s" % (len(inconc), ", ".join(inconc[:12]) + (" ..." if len(inconc) > 12 else "")))
    for h in harness_err[:20]:
        print("HARNESS-ERROR " + h)
    print("%s %s: %d obligations: %d confirmed, %d refuted (%d known), %d inconclusive, %d error; %.0f s"
          % (pid, tier, len(obs), n["confirmed"], n["refuted"], len(knowns), n["inconclusive"], n["error"], wall), flush=True)
    write_evidence(pid, pm, tier, seed, obs, results, n, traces, violations, knowns, inconc, harness_err, wall, partial=bool(only))
    if violations:
        return 1
    if harness_err or (n["confirmed"] == 0 and not knowns):
        return 2
    return 0


def write_evidence(pid, pm, tier, seed, obs, results, n, traces, violations, knowns, inconc, harness_err, wall, partial=False):
    # a partial run (--only, used while developing) must not replace the evidence of a full run
    evid = os.path.join(OUT, "evidence-partial") if partial else EVID
    os.makedirs(evid, exist_ok=True)
    paths = sum(int(r.get("paths") or 0) for r in results.values())
    queries = sum(int(r.get("queries") or 0) for r in results.values())
    solver_s = sum(float(r.get("solver_s") or 0) for r in results.values())
    cpu_s = sum(float(r.get("cpu_s") or 0) for r in results.values())
    byid = {o["oid"]: o for o in obs}
    samples = []
    fams = {}
    for oid, r in sorted(results.items()):
        fam = fams.setdefault(r.get("family"), dict(obligations=0, confirmed=0, refuted=0, inconclusive=0, error=0, paths=0, queries=0))
        fam["obligations"] += 1
        fam[r.get("verdict") if r.get("verdict") in fam else "inconclusive"] += 1
        fam["paths"] += int(r.get("paths") or 0)
        fam["queries"] += int(r.get("queries") or 0)
    seenf = {}
    for oid, r in sorted(results.items(), key=lambda kv: -(kv[1].get("paths") or 0)):
        f = r.get("family")
        if seenf.get(f, 0) >= 2:
            continue
        seenf[f] = seenf.get(f, 0) + 1
        samples.append({"obligation": oid, "shape": byid[oid].get("desc"), "symbolic_inputs": byid[oid].get("sig"),
                        "pre": byid[oid].get("pre", []), "verdict": r.get("verdict"), "paths": r.get("paths"),
                        "solver_queries": r.get("queries"), "solver_s": r.get("solver_s"), "cpu_s": r.get("cpu_s"),
                        "twin": (r.get("twin") or {}).get("verdict")})
    for oid, key, path, reason in violations[:5]:
        samples.append({"obligation": oid, "verdict": "VIOLATION", "reason": reason,
                        "cex": (results.get(oid) or (results.get(oid.split("#")[0]) or {}).get("residual") or {}).get("cex"), "replay": path})
    for oid, key, f in knowns[:5]:
        samples.append({"obligation": oid, "verdict": "known-finding", "key": key, "cex": results[oid].get("cex")})
    try:
        import subprocess
        head = subprocess.run(["git", "-C", "/repo", "rev-parse", "HEAD"], capture_output=True, text=True).stdout.strip()
        dirty = bool(subprocess.run(["git", "-C", "/repo", "status", "--porcelain", "-uno"], capture_output=True, text=True).stdout.strip())
    except Exception:
        head, dirty = "?", False
    ev = {
        "property_id": pid, "tier": tier, "seed": seed, "level": "model_checking",
        "coverage": {
            "states": max(paths, 0), "transitions": max(queries, 0),
            "traces_validated_against_impl": traces,
            "samples": samples,
            "explanation": "states = execution paths of the real rdflib code explored symbolically by CrossHair (plus one per "
                           "regular-language query); transitions = SMT solver check() calls issued; traces_validated = solver "
                           "counterexamples and reachability-twin witnesses re-run on genuine rdflib terms outside CrossHair",
            "obligations": len(obs), "confirmed": n["confirmed"], "refuted": n["refuted"],
            "inconclusive": n["inconclusive"], "errors": n["error"],
            "inconclusive_obligations": inconc[:50], "harness_errors": harness_err[:20],
            "known_findings_hit": sorted({k for _, k, _ in knowns}),
            "violations": [{"obligation": o, "key": k, "replay": p, "reason": rs} for o, k, p, rs in violations],
            "per_family": fams,
            "functions_encoded": getattr(pm, "FUNCTIONS", []),
            "bounds": pm.bounds(tier) if hasattr(pm, "bounds") else {},
            "stubs": getattr(pm, "STUBS", []),
            "solver_s": round(solver_s, 1), "cpu_s": round(cpu_s, 1),
            "repo_head": head, "repo_dirty": dirty, "rdflib_imported_from": os.path.dirname(os.path.dirname(__import__("rdflib").__file__)),
            "exhaustive": False,
        },
        "assumptions": getattr(pm, "ASSUMPTIONS", []) + [
            "A1 opaque terms: a term is (kind, unbounded integer identity); lexical content is not modelled in engine S",
            "A3 shapes (operation kinds, wildcards, query text) are enumerated, content is symbolic",
            "trusted: CrossHair 0.0.110 models of Python builtins, z3, the %s-formatting shim, the reference models in /verif/vflib",
            "a 'confirmed' obligation means: no violation for ANY content within the stated shape and size bound; nothing is claimed outside the bounds",
        ],
        "wall_s": round(wall, 1),
        "violations": len(violations),
    }
    with open(os.path.join(evid, "%s.json" % pid), "w") as f:
        json.dump(ev, f, indent=1, default=str)


def main(argv):
    import argparse
    ap = argparse.ArgumentParser(prog="vf")
    sub = ap.add_subparsers(dest="cmd", required=True)
    c = sub.add_parser("check")
    c.add_argument("pid")
    c.add_argument("--tier", default=os.environ.get("VERIF_TIER", "quick"))
    c.add_argument("--only", default=None)
    r = sub.add_parser("replay")
    r.add_argument("path")
    l = sub.add_parser("list")
    l.add_argument("pid")
    l.add_argument("--tier", default="quick")
    a = ap.parse_args(argv)
    seed = int(os.environ.get("VERIF_SEED", "0") or 0)
    if a.cmd == "check":
        tier = a.tier if a.tier in ("quick", "thorough") else "quick"
        return check(a.pid.upper(), tier, seed, a.only)
    if a.cmd == "replay":
        import subprocess
        return subprocess.call([sys.executable, a.path])
    if a.cmd == "list":
        pm = load_prop(a.pid.upper())
        for o in pm.obligations(a.tier, seed):
            print(o["oid"], o.get("budget"))
        return 0


if __name__ == "__main__":
    sys.exit(main(sys.argv[1:]))
