"""Run one obligation under CrossHair (engines S and K) inside the current process.

The harness *body* is an ordinary Python callable ``body(*args) -> None | str`` (None = the
property held on this path, str = what went wrong).  ``make_entry`` writes a tiny module
with a typed, PEP316-annotated wrapper around it (CrossHair wants a source file), and
``analyze`` drives crosshair.core on that wrapper and returns a structured verdict.
"""
import ast
import importlib.util
import os
import sys
import time
import traceback

OUT = os.environ.get("VF_OUT", "/verif/out")
GEN = os.path.join(OUT, "gen")

_TYPES = {
    "i": "int",
    "s": "str",
    "b": "bool",
    "t2": "Tuple[int, int]",
    "t3": "Tuple[int, int, int]",
}


def make_entry(oid, sig, pre=(), raises=()):
    """sig: list of (name, code) with code in _TYPES.  Returns the imported module."""
    os.makedirs(GEN, exist_ok=True)
    safe = "".join(c if c.isalnum() else "_" for c in oid)
    path = os.path.join(GEN, "e_%s_%d.py" % (safe[:80], os.getpid()))
    params = ", ".join("%s: %s" % (n, _TYPES[c]) for n, c in sig)
    names = ", ".join(n for n, _ in sig)
    doc = "".join("    pre: %s\n" % p for p in pre)
    if raises:
        doc += "    raises: %s\n" % ", ".join(raises)
    src = (
        "from typing import Tuple\n"
        "_BODY = None\n"
        "_TWIN = False\n"
        "def entry(%s) -> bool:\n"
        '    """\n%s    post: _\n    """\n'
        "    r = _BODY(%s)\n"
        "    if _TWIN:\n"
        "        return r is not None\n"
        "    return r is None\n"
    ) % (params, doc, names)
    with open(path, "w") as f:
        f.write(src)
    spec = importlib.util.spec_from_file_location("vf_entry_%s_%d" % (safe[:40], os.getpid()), path)
    mod = importlib.util.module_from_spec(spec)
    sys.modules[spec.name] = mod
    spec.loader.exec_module(mod)
    mod.__vf_path__ = path
    return mod


_installed = False
STATS = {"queries": 0, "solver_s": 0.0}
_LAST_CEX = [None]


def install():
    """Engine shims (idempotent): %s-formatting keeps symbolic strings symbolic; solver
    query counter; counterexample capture."""
    global _installed
    if _installed:
        return
    _installed = True
    import re
    import z3
    import crosshair.core as core
    import crosshair.core_and_libs  # noqa: F401  (registers library models)
    from crosshair.tracers import NoTracing

    from crosshair.util import CrossHairValue
    # --- %s shim -------------------------------------------------------------------
    orig_mod = core._PATCH_REGISTRATIONS.get(str.__mod__)

    def _is_int(x):
        with NoTracing():
            return type(x) is int or (isinstance(x, CrossHairValue) and type(x).__name__ == "SymbolicInt")

    def _pct(self, other):
        if type(self) is str and "%(" not in self:
            parts = re.split(r"(%[%s]|%0?[1-9]?d)", self)
            simple = all((i % 2 == 1) or ("%" not in p) for i, p in enumerate(parts))
            if simple:
                args = other if type(other) is tuple else (other,)
                n = sum(1 for i, p in enumerate(parts) if i % 2 == 1 and p != "%%")
                ints_ok = True
                if n == len(args):
                    k = 0
                    for i, p in enumerate(parts):
                        if i % 2 == 1 and p != "%%":
                            if p != "%s" and not _is_int(args[k]):
                                ints_ok = False
                            k += 1
                if n == len(args) and ints_ok:
                    out = ""
                    it = iter(args)
                    for i, p in enumerate(parts):
                        if i % 2 == 0:
                            out = out + p
                        elif p == "%%":
                            out = out + "%"
                        elif p == "%s":
                            out = out + str(next(it))
                        else:
                            # %d / %Nd / %0Nd on an int: digits by arithmetic (CrossHair's int.__repr__), padding by length
                            x = next(it)
                            spec = p[1:len(p) - 1]
                            neg = x < 0
                            digits = str(-x if neg else x)
                            width = int(spec) if spec not in ("", "0") else 0
                            fill = "0" if spec[:1] == "0" else " "
                            pad = width - len(digits) - (1 if neg else 0)
                            if pad < 0:
                                pad = 0
                            if fill == "0":
                                out = out + ("-" if neg else "") + "0" * pad + digits
                            else:
                                out = out + " " * pad + ("-" if neg else "") + digits
                    return out
        with NoTracing():
            args = other if type(other) is tuple else (other,)
            if type(self) is str and not any(isinstance(a, CrossHairValue) for a in args):
                # concrete format string, no symbolic argument at top level (e.g. an opaque symbolic
                # *term* whose repr is constant): format natively, realise nothing
                return str.__mod__(self, other)
            return str.__mod__(core.deep_realize(self), core.deep_realize(other))

    core._PATCH_REGISTRATIONS[str.__mod__] = _pct

    # --- str.format on concrete arguments: use the C implementation ------------------
    from crosshair.util import CrossHairValue
    orig_format = core._PATCH_REGISTRATIONS.get(str.format)

    def _fmt(self, *a, **kw):
        with NoTracing():
            plain = type(self) is str and not kw
            if plain:
                for x in a:
                    if isinstance(x, CrossHairValue) or not isinstance(x, (str, int)):
                        plain = False
                        break
            if plain:
                return str.format(self, *a)
        return orig_format(self, *a, **kw)

    if orig_format is not None:
        core._PATCH_REGISTRATIONS[str.format] = _fmt

    # --- format(obj) / f"{obj}" for objects with a __format__ written in Python ------------
    # CrossHair's model of format() deep-realises its argument before calling __format__ (needed for C-level formatters);
    # for a pure-Python __format__ (the harness recorders and receiver stubs) that realises the symbolic text the object
    # holds. Such a __format__ is simply called, traced - which is what format() does.
    import types as _types
    orig_format_fn = core._PATCH_REGISTRATIONS.get(format)

    def _format_shim(obj, format_spec=""):
        with NoTracing():
            direct = (not isinstance(obj, CrossHairValue)) and isinstance(getattr(type(obj), "__format__", None), _types.FunctionType)
        if direct:
            return type(obj).__format__(obj, format_spec)
        if orig_format_fn is not None:
            return orig_format_fn(obj, format_spec)
        with NoTracing():
            return format(core.deep_realize(obj), core.deep_realize(format_spec))

    core._PATCH_REGISTRATIONS[format] = _format_shim

    # --- negative slice bounds on symbolic strings --------------------------------------
    # CrossHair 0.0.110 mis-slices a concatenated symbolic string with a negative bound (`('"' + s + '"')[1:-1] == s` is
    # "refuted" with s = '\x00', which replays as true). Bounds are made non-negative with the string's length first, which
    # is what CPython does; everything else is left to CrossHair's own implementation.
    from crosshair.libimpl.builtinslib import LazyIntSymbolicStr
    _orig_getitem = LazyIntSymbolicStr.__getitem__

    def _getitem(self, i):
        if isinstance(i, slice) and (i.step is None or i.step == 1):
            a, b = i.start, i.stop
            if (a is not None and a < 0) or (b is not None and b < 0):
                n = len(self)
                if a is not None and a < 0:
                    a = n + a
                    if a < 0:
                        a = 0
                if b is not None and b < 0:
                    b = n + b
                    if b < 0:
                        b = 0
                i = slice(a, b, None)
        return _orig_getitem(self, i)

    LazyIntSymbolicStr.__getitem__ = _getitem

    # --- no contract enforcement on callees (rdflib has no PEP316 contracts; the
    #     interception of every constructor call costs ~40% of the run time) ----------
    from crosshair import enforce as _enf

    def _trace_call(self, frame, fn, binding_target):
        if isinstance(fn, _enf.NoEnforce):
            return fn.fn
        return None

    _enf.EnforcedConditions.trace_call = _trace_call

    # --- solver statistics ---------------------------------------------------------
    orig_check = z3.Solver.check

    def check(self, *a, **kw):
        t = time.perf_counter()
        try:
            return orig_check(self, *a, **kw)
        finally:
            STATS["queries"] += 1
            STATS["solver_s"] += time.perf_counter() - t

    z3.Solver.check = check

    # --- counterexample capture ----------------------------------------------------
    orig_msg = core.make_counterexample_message

    def capture(conditions, args, return_val=None):
        msg = orig_msg(conditions, args, return_val)
        try:
            reprer = core.context_statespace().extra(core.LazyCreationRepr)
            with NoTracing():
                real = reprer.deep_realize(args)
                _LAST_CEX[0] = {k: _plain(v) for k, v in real.arguments.items()}
        except Exception:
            _LAST_CEX[0] = None
        return msg

    core.make_counterexample_message = capture


def untrace(targets):
    """Run the given callables (real code, concrete inputs only) outside CrossHair's tracer.
    Used for concrete set-up work that is irrelevant to the property (binding the ~30 default
    namespace prefixes of every new Graph) and dominates the per-path cost when traced."""
    import crosshair.core as core
    from crosshair.tracers import NoTracing
    from crosshair.util import CrossHairValue

    def mk(fn):
        def w(*a, **kw):
            with NoTracing():
                for x in a:
                    if isinstance(x, CrossHairValue):
                        raise AssertionError("symbolic value reached an untraced stub")
                return fn(*a, **kw)
        return w

    for t in targets:
        core._PATCH_REGISTRATIONS[t] = mk(t)


def _plain(v):
    if isinstance(v, bool):
        return bool(v)
    if isinstance(v, int):
        return int(v)
    if isinstance(v, str):
        return str(v)
    if isinstance(v, tuple):
        return tuple(_plain(x) for x in v)
    if isinstance(v, list):
        return [_plain(x) for x in v]
    return repr(v)


def _parse_call(detail):
    """Fallback: recover kwargs from 'false when calling entry(x0=1, s0="a")'."""
    i = detail.find("entry(")
    if i < 0:
        return None
    depth = 0
    for j in range(i + 5, len(detail)):
        if detail[j] == "(":
            depth += 1
        elif detail[j] == ")":
            depth -= 1
            if depth == 0:
                call = detail[i : j + 1]
                try:
                    node = ast.parse(call, mode="eval").body
                    return {kw.arg: ast.literal_eval(kw.value) for kw in node.keywords}
                except Exception:
                    return None
    return None


def analyze(mod, body, budget, twin=False, per_path=None, max_iter=None):
    """-> dict(verdict, paths, confirmed_paths, queries, solver_s, cpu_s, cex, detail)"""
    install()
    from crosshair.core import analyze_function, run_checkables
    from crosshair.options import AnalysisOptionSet, AnalysisKind
    from crosshair.statespace import MessageType
    import collections

    mod._BODY = body
    mod._TWIN = twin
    stats = collections.Counter()
    kw = dict(
        analysis_kind=[AnalysisKind.PEP316],
        per_condition_timeout=float(budget),
        report_all=True,
    )
    if per_path is not None:
        kw["per_path_timeout"] = float(per_path)
    if max_iter is not None:
        kw["max_iterations"] = int(max_iter)
    opts = AnalysisOptionSet(**kw)
    opts.stats = stats
    q0, s0 = STATS["queries"], STATS["solver_s"]
    c0 = time.process_time()
    _LAST_CEX[0] = None
    out = {"verdict": "inconclusive", "detail": "", "cex": None}
    try:
        checkables = analyze_function(mod.entry, opts)
        if not checkables:
            out["detail"] = "no conditions found"
            out["verdict"] = "error"
        else:
            # stats are kept on the AnalysisOptions object CrossHair derives
            for c in checkables:
                if getattr(c, "options", None) is not None:
                    c.options.stats = stats
            msgs = run_checkables(checkables)
            states = [m.state for m in msgs]
            if MessageType.CONFIRMED in states and len(msgs) == 1:
                out["verdict"] = "confirmed"
            elif any(s in (MessageType.POST_FAIL,) for s in states):
                m = [m for m in msgs if m.state == MessageType.POST_FAIL][0]
                out["verdict"] = "refuted"
                out["detail"] = m.message[:2000]
                out["cex"] = _LAST_CEX[0] or _parse_call(m.message)
            elif any(s in (MessageType.EXEC_ERR, MessageType.POST_ERR) for s in states):
                m = [m for m in msgs if m.state in (MessageType.EXEC_ERR, MessageType.POST_ERR)][0]
                out["verdict"] = "exec_err"
                out["detail"] = (m.message + "\n" + (m.traceback or ""))[:4000]
                out["cex"] = _LAST_CEX[0] or _parse_call(m.message)
            elif MessageType.PRE_UNSAT in states:
                out["verdict"] = "pre_unsat"
                out["detail"] = msgs[0].message[:500]
            elif MessageType.CANNOT_CONFIRM in states:
                out["verdict"] = "inconclusive"
                out["detail"] = "budget exhausted / unknown paths"
            else:
                out["verdict"] = "inconclusive"
                out["detail"] = "; ".join("%s: %s" % (m.state.name, m.message[:200]) for m in msgs)
    except BaseException as e:  # engine crash
        out["verdict"] = "error"
        out["detail"] = "engine crash: %r\n%s" % (e, traceback.format_exc()[-3000:])
    out["paths"] = int(stats.get("num_paths", 0))
    out["queries"] = STATS["queries"] - q0
    out["solver_s"] = round(STATS["solver_s"] - s0, 3)
    out["cpu_s"] = round(time.process_time() - c0, 3)
    return out
