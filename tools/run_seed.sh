#!/bin/sh
# usage: tools/run_seed.sh <seeded/dir> [tier] — run the seed's property check against a scratch worktree with the patch applied
# (equivalent to `git -C /repo apply patch.diff; ./vf check ...; git -C /repo checkout -- .` but leaves /repo alone, so that
#  background runs using /repo are not disturbed)
set -e
D="$(cd "$1" && pwd)"; TIER="${2:-quick}"
WT=/var/tmp/wt/seedrun_$$   # one scratch worktree per invocation, removed afterwards
PID=$(/venv/bin/python -c "import json,sys; print(json.load(open('$D/meta.json'))['property'])")
git -C /repo worktree add -q --detach "$WT" HEAD
git -C "$WT" apply "$D/patch.diff"
cd "$(dirname "$0")/.."
VF_REPO="$WT" VF_OUT=/verif/out/seedruns ./vf check "$PID" --tier "$TIER" > "$D/check_$TIER.log" 2>&1 && RC=0 || RC=$?
git -C /repo worktree remove --force "$WT"
echo "$D property=$PID tier=$TIER exit=$RC $(grep -c '^VIOLATION' "$D/check_$TIER.log") violation lines"
