#!/bin/sh
# runs every registered quick command in /verif against /repo (regenerates evidence/*.json); prints one summary line each
cd "$(dirname "$0")/.."
for id in C01 C02 C03 C04 C05 C06 C07 C08 C09 C10 C11 C12 C13 C15 C16 C17 C18 C19 C20; do
  ./vf check $id --tier quick > out/quick_$id.log 2>&1; rc=$?
  echo "$id exit=$rc $(tail -1 out/quick_$id.log)"
done
