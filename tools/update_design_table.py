#!/usr/bin/env python3
"""Rewrites column 5 (quick tier: obligations, wall) of the summary table in DESIGN.md from evidence/*.json."""
import json
import os
import re

ROOT = os.path.dirname(os.path.dirname(os.path.abspath(__file__)))
p = os.path.join(ROOT, "DESIGN.md")
lines = open(p).read().split("\n")
for i, ln in enumerate(lines):
    m = re.match(r"\| (C\d\d) \|", ln)
    if not m:
        continue
    ev = os.path.join(ROOT, "evidence", m.group(1) + ".json")
    if not os.path.exists(ev):
        continue
    d = json.load(open(ev))
    if d.get("tier") != "quick":
        continue
    n = d["coverage"]["obligations"]
    w = d["wall_s"]
    t = "~%d s" % (round(w / 10) * 10) if w < 90 else "~%.1f min" % (w / 60)
    cols = ln.split(" | ")
    if len(cols) >= 6:
        cols[4] = "%d, %s" % (n, t)
        lines[i] = " | ".join(cols)
open(p, "w").write("\n".join(lines))
