#!/bin/sh
# usage: tools/run_benign.sh <dir with patch.diff + meta.json ("properties": [...])> [tier]
# Applies a behaviour-preserving change in a private scratch worktree and runs the quick checks of the properties it touches:
# every check must exit 0 (no VIOLATION line); logs go to <dir>/check_<id>_<tier>.log
D="$(cd "$1" && pwd)"; TIER="${2:-quick}"
WT=/var/tmp/wt/benign_$$
git -C /repo worktree add -q --detach "$WT" HEAD || exit 2
if ! git -C "$WT" apply "$D/patch.diff"; then echo "$D: PATCH DOES NOT APPLY"; git -C /repo worktree remove --force "$WT"; exit 2; fi
cd "$(dirname "$0")/.."
for PID in $(/venv/bin/python -c "import json; print(' '.join(p for p in json.load(open('$D/meta.json'))['properties'] if p in 'C01 C02 C03 C04 C05 C06 C07 C08 C09 C10 C11 C12 C13 C15 C16 C17 C18 C19 C20'.split()))"); do
  VF_REPO="$WT" VF_OUT=/verif/out/benignruns ./vf check "$PID" --tier "$TIER" > "$D/check_${PID}_$TIER.log" 2>&1 && RC=0 || RC=$?
  echo "$(basename $D) property=$PID tier=$TIER exit=$RC $(grep -c '^VIOLATION' "$D/check_${PID}_$TIER.log") violation lines, $(grep -c '^inconclusive' "$D/check_${PID}_$TIER.log") inconclusive lines"
done
git -C /repo worktree remove --force "$WT"
