#!/usr/bin/env python3
"""Regenerates /verif/MANIFEST.json from the table below (keeps it schema-valid and in one place)."""
import json
import os

ROOT = os.path.dirname(os.path.dirname(os.path.abspath(__file__)))
BASE = "cd /repo && /venv/bin/python -m pytest -ra -q -p no:cacheprovider --timeout=900 --continue-on-collection-errors"

S_NOTE = ("Trusted base: CrossHair 0.0.110's models of Python builtins, z3 5.1, the harness reference model, the opaque-term "
          "abstraction (a term is an unbounded symbolic integer identity with constant hash; k=0 is the falsy term), the "
          "%s/str.format shims and the untraced NamespaceManager set-up. Shapes (operation kinds, wildcards, graph names, query "
          "text) are enumerated, content is symbolic. 'confirmed' = CrossHair exhausted every path of the real rdflib code for "
          "that shape; nothing is claimed outside the stated bounds; inconclusive obligations are reported, never counted as passes. "
          "Every counterexample is replayed on genuine rdflib terms before it is reported.")

CLAIMED = {
    "C01": dict(
        technique="symbolic execution of Graph/Memory/SimpleMemory (CrossHair + z3) with opaque symbolic terms against a set model",
        text="Bounded symbolic model checking of the real Graph + store code: for each enumerated history shape (op kinds, k<=3 quick / "
             "k<=4 thorough; binary operators; open-iterator schedules; k=3 growing histories with whole-content observation) z3 decides, over all term identities incl. the falsy term, "
             "whether triples() under all 8 pattern shapes, len, membership and iteration equal the set model.",
        ref="DESIGN.md section 3 C01"),
    "C02": dict(
        technique="symbolic execution of Dataset/ConjunctiveGraph/Memory context bookkeeping (CrossHair + z3) against a name->set model",
        text="Bounded symbolic model checking of Dataset over Memory: enumerated histories (add/remove/pattern remove/graph/remove_graph, "
             "k<=3) x symbolic terms; quads(), graphs(), per-graph views, quad membership, restricted and union reads all compared with "
             "a name -> triple-set model under all 8 pattern shapes, incl. empty-but-existing and unknown graphs, remove_graph(None), default_union on and off.",
        ref="DESIGN.md section 3 C02"),
    "C18": dict(
        technique="symbolic execution of AuditableStore over Memory (CrossHair + z3): rollback/commit vs. snapshot and model",
        text="Bounded symbolic model checking of the undo log: symbolic initial content (0-2 triples) and symbolic transaction triples, "
             "enumerated op shapes (add, 8 remove patterns, with/without graph) up to 3 ops (thorough 4), rollback/commit endings, and "
             "two wrappers with every interleaving of <=2 ops each on pairwise different triples, plus an always-included family where another store-changing op sits between remove(t) and add(t).",
        ref="DESIGN.md section 3 C18"),
    "C19": dict(
        technique="symbolic execution of Collection/Graph.items/value/set (CrossHair + z3) differentially against a Python list",
        text="Bounded symbolic model checking of rdflib.collection.Collection: start length 0-2 (thorough 3), every sequence of <=2 "
             "operations (seeded 3-operation sample) over append, +=, item assignment, deletion, clear, reads; members (identity and "
             "truthiness) and indices symbolic; after each step exception class vs. list, well-formed rdf:first/rdf:rest chain with no "
             "orphans, len and iteration; reads on cyclic/truncated chains must terminate.",
        ref="DESIGN.md section 3 C19"),
    "C11": dict(
        technique="symbolic execution of rdflib.paths evaluators (CrossHair + z3) against a relational-algebra reference with bounded fixpoint",
        text="Bounded symbolic model checking of property-path evaluation through Graph.triples/subjects/objects/subject_objects: all "
             "depth<=1 path expressions (quick; all depth-2 in thorough) x edge-predicate shapes (n<=2, thorough 3 edges) x the four "
             "bound/unbound end combinations; edge end points and bound terms symbolic (falsy terms, terms absent from the graph, cycles "
             "and self-loops are the solver's choice), and the same expressions as SPARQL triple patterns (rdflib's parser and translatePath; nodes symbolic IRIs or integer literals); the depth<=1 expressions also through ReadOnlyGraphAggregate.triples over two member graphs; produced pairs compared with composition/union/converse/closure, termination by a "
             "step budget, no duplicates for closures. One recorded finding (negated sets with inverse members) is re-checked against an "
             "oracle modelling exactly that defect so that other violations at the same site are still reported.",
        ref="DESIGN.md section 3 C11"),
    "C04": dict(
        technique="symbolic execution of rdflib's SPARQL evaluator (CrossHair + z3) on symbolic data against a bottom-up algebra reference",
        text="Bounded symbolic model checking of evalQuery and the evaluators it dispatches to: a generated catalogue of query templates "
             "(63 single-operator, 8 GRAPH, 408 depth-2 nestings; every variable-sharing pattern; data as symbolic IRIs and, in a second variant, as symbolic integer literals incl. the falsy one) is parsed and translated by rdflib "
             "itself, then evaluated over n=2..3 symbolic triples with symbolic query constants; the solution multiset (SELECT), the ASK "
             "boolean and the CONSTRUCT graph are compared with a reference evaluator written from SPARQL 1.1 section 18. Three recorded "
             "scope deviations of rdflib's top-down evaluation are known findings keyed by a syntactic class of the query. Operators inside GRAPH ?g with the same solution in two named graphs; every single-operator template without constants also as text through the public route Graph.query() -> SPARQLProcessor -> Result (type, vars, iteration twice, bindings, len, bool, askAnswer, graph) - one recorded finding there (iteration skips all-unbound solutions).",
        ref="DESIGN.md section 3 C04"),
    "C10": dict(
        technique="symbolic execution of rdflib's SPARQL Update evaluator (CrossHair + z3) against a dataset transformer written from the Update spec",
        text="Bounded symbolic model checking of evalUpdate and the per-operation evaluators: ~90 generated request templates (INSERT/DELETE "
             "DATA, DELETE WHERE, DELETE/INSERT/WHERE with overlapping delete/insert sets, unbound and illegal template terms, blank "
             "nodes, WITH, USING, GRAPH templates, CLEAR/DROP, ADD/MOVE/COPY over every src/dst incl. missing graphs and src=dst, "
             "multi-operation requests) applied through Graph, Dataset and ConjunctiveGraph with the default-graph-union switch off/on, "
             "over n=2 (thorough 3) symbolic triples placed in default/g1/g2 by shape; every graph compared with the reference afterwards. Includes templates repeating a graph name in separate GRAPH blocks, GRAPH-block deletions meeting plain insertions on the WITH graph, a variable in two positions of one pattern, template blocks whose graph variable is unbound in some solutions; no other graph may receive triples; every template without constants also as text through the public route Graph.update().",
        ref="DESIGN.md section 3 C10"),
    "C08": dict(
        technique="symbolic execution of rdflib's modifier/aggregate evaluators (CrossHair + z3) against the SPARQL definitions; LIMIT/OFFSET and literal values symbolic",
        text="Bounded symbolic model checking of evalDistinct/OrderBy/Slice/Project/Group/AggregateJoin and the Counter/Sample/Minimum/"
             "Maximum accumulators: ~45 modifier sets over BGP, UNION and OPTIONAL bases (unbound cells) on 0-3 (thorough 4) symbolic rows "
             "whose objects are integer literals with symbolic value or symbolic IRIs; DISTINCT/GROUP results as multisets, ORDER BY as "
             "'same multiset and no later row precedes an earlier one', slices with symbolic LIMIT/OFFSET against position bounds in the "
             "ordered sequence; the modifier sets without LIMIT/OFFSET also as text through the public route Graph.query() -> Result (iteration and bindings show the same sequence). SUM/AVG/GROUP_CONCAT values are not claimed.",
        ref="DESIGN.md section 3 C08"),
    "C13": dict(
        technique="symbolic execution of read APIs (CrossHair + z3) with a before/after store snapshot as frame condition; serializer purity only shape-symbolic",
        text="Bounded symbolic model checking of a frame condition: for a Graph and a Dataset (default_union on/off, IRI- and bnode-named "
             "graphs, an existing empty graph) holding n=2 symbolic triples, the store's per-graph content and set of graphs is "
             "snapshotted through the store interface, one read is performed twice (C04/C08 catalogue queries incl. CONSTRUCT, path "
             "evaluation, iteration, len, membership, 8 slice shapes, restricted triples/quads, accessors, operators + - * ^, read calls "
             "naming a graph by a foreign Graph object, queries with FROM / FROM NAMED naming a loadable local document) and the snapshot must be unchanged and both answers equal. Serializers, "
             "isomorphic, canonicalisation, graph_diff and DESCRIBE are covered only by a shape-symbolic supplement (512 membership cases).",
        ref="DESIGN.md section 3 C13"),
    "C15": dict(
        technique="differential symbolic execution (CrossHair + z3): two evaluations of rdflib's SPARQL engine on the same symbolic data inside one path",
        text="Bounded symbolic differential checking without an oracle: BGP triple-pattern permutations, operand swaps of joins and unions, "
             "consistent variable renaming with PREFIX spelling over the C04/C08/C11 catalogues, initBindings vs a VALUES row with a "
             "symbolic term, one prepared Query object re-used on symbolic graphs G1, G2, G1 and with / without initBindings vs freshly prepared copies, data as symbolic IRIs and as (falsy-capable) integer literals, and the same "
             "data in Memory / SimpleMemory / AuditableStore / ReadOnlyGraphAggregate; path patterns with both ends bound before vs after evaluation; the public route Graph.query(text, initNs=...) with one text under two namespaces in sequence; two prefixes for one namespace; solution multisets must coincide for every content.",
        ref="DESIGN.md section 3 C15"),
    "C05": dict(
        technique="z3 regular-language inclusion between W3C productions and live rdflib regex objects; CrossHair symbolic strings through the term readers/writers",
        text="Partial claim (term level). Unbounded: 15 language inclusions decided by z3's regex theory for strings of any length - IRIREF, "
             "STRING_LITERAL_QUOTE, literal with datatype/language, LANGTAG, BLANK_NODE_LABEL, INTEGER/DECIMAL/DOUBLE and their precedence, "
             "a whole N-Triples line against the token sequence read from parseline's AST, BNode()/URIRef.n3() output within the grammar; "
             "blank node labels of a TriG document (two labels ending in a symbolic code point, through the real TrigSinkParser into a Dataset): same label <=> same node, also across graph blocks; "
             "relative IRI resolution (notation3.join) against RFC 3986 for symbolic path segments by shape; xml:lang scoping of the RDF/XML SAX handler with symbolic attribute values; "
             "witnesses are replayed through the real parser. Bounded: nt._quote_encode on every string of length <=3 (thorough 4) is a valid "
             "STRING_LITERAL_QUOTE decoding to the input; ntriples.unquote and SinkParser.strconst agree with a grammar-derived decoder on "
             "a<escape>b for symbolic a, b and 8-14 enumerated escapes in all four quoting styles.",
        note="Trusted base: z3 sequence/regex theory (characters up to U+2FFFF), the ~150-line re-parse-tree translator (unsupported "
             "constructs make an obligation inconclusive), the transcribed W3C productions, CrossHair's str model, the grammar-derived "
             "reference decoder. Statement-level grammar beyond the four label-scope shapes, RDF/XML, JSON-LD, input-source handling are outside the claim.",
        ref="DESIGN.md section 3 C05"),
    "C03": dict(
        technique="CrossHair symbolic strings through rdflib's literal writers and readers (per-term text round trip)",
        text="Partial claim (per-term escaping, the part the property's rationale singles out). For every string up to length 3 (thorough 4): "
             "nt._quote_encode -> ntriples.unquote, Literal._quote_encode (short and triple-quoted branch) -> SinkParser.strconst with "
             "exact end-of-token detection before @lang / ^^<iri> / ' .', XML text/attribute escaping against a reference unescaper, and the "
             "Turtle numeric/boolean shorthand of Literal._literal_n3 re-typed by the grammar for every valid lexical form up to length "
             "4-5 and for any text with a value up to length 3-4, the regex guards of that shorthand decided by z3 for every length (with CPython's meaning of `$` under match/fullmatch); engine S on the serializers' list-detection code (JSON-LD to_collection, Turtle/LongTurtle isValidList) over rdf:first/rdf:rest chains with symbolic members and 6 defect shapes incl. cycles (step budget). Document-level structure (bnode inlining, qnames, RDF/XML nesting, whole JSON-LD documents) is not claimed.",
        note="Trusted base: CrossHair 0.0.110's model of Python str/int (counterexamples are replayed outside CrossHair; it has a known "
             "unsoundness around negative slice bounds on symbolic strings and does not model `$` matching before a final newline - `$`-terminated patterns are decided by the R obligations instead), z3, the %s/str.format shims, the reference decoders/matchers "
             "written from the W3C/XSD grammars, the regex translator for the R obligations. Strings longer than the stated bound are "
             "outside the claim; for R obligations the claim is for strings of every length over characters up to U+2FFFF.", ref="DESIGN.md section 3 C03"),
    "C07": dict(
        technique="z3 regular-language inclusion on live patterns + CrossHair symbolic strings (n3 text forms); ordering tables by enumeration",
        text="Partial claim: only the clause 'a term's n3() text read back by the Turtle/SPARQL readers is the same term', for the parts built "
             "from str kernels: literal lexical forms (length <=3, thorough 4, bare and with @lang/^^iri, both quoting branches), language "
             "tags (Literal()'s pattern = LANGTAG, within the N3 and SPARQL readers' patterns, any length), generated blank-node labels "
             "and gate-passing absolute IRIs within the readers' token patterns (any length); Literal.__eq__/__ne__ reflexive, symmetric, transitive and = (lexical, datatype, lower-cased tag) over symbolic language tags and symbolic datatype identities with concrete lexical forms. Other equality/hash/ordering/pickling laws over "
             "term contents are NOT covered (contents cannot be symbolic); the finite kind-order tables are checked by enumeration.",
        note="Trusted base: CrossHair 0.0.110's model of Python str/int (counterexamples are replayed outside CrossHair; it has a known "
             "unsoundness around negative slice bounds on symbolic strings and does not model `$` matching before a final newline - `$`-terminated patterns are decided by the R obligations instead), z3, the %s/str.format shims, the reference decoders/matchers "
             "written from the W3C/XSD grammars, the regex translator for the R obligations. Strings longer than the stated bound are "
             "outside the claim; for R obligations the claim is for strings of every length over characters up to U+2FFFF.", ref="DESIGN.md section 3 C07"),
    "C09": dict(
        technique="CrossHair over unbounded symbolic ints and short symbolic strings on rdflib's datatype kernels; z3 regex inclusion for lexical spaces",
        text="Partial claim: the 13 integer-derived datatypes' well-formedness checkers accept every integer of the XSD value space "
             "(unbounded ints), the boolean lexical mapping on all strings up to length 5, the Gregorian days-in-month kernel for all "
             "years, idempotence of the normalizedString / token whitespace normalisers on strings up to length 3 (thorough 4), and "
             "XSD duration / language lexical spaces within the live parsing patterns (any length), Literal.eq/neq on numeric literals of 6 datatypes with unbounded symbolic integer values, duration_isoformat on timedelta-like records with symbolic integer fields (|days| < 100, microseconds < 10^4) read back by a grammar-derived reader. Float, double, decimal, date/time "
             "value mappings and Literal construction itself are out of reach and not claimed.",
        note="Trusted base: CrossHair 0.0.110's model of Python str/int (counterexamples are replayed outside CrossHair; it has a known "
             "unsoundness around negative slice bounds on symbolic strings and does not model `$` matching before a final newline - `$`-terminated patterns are decided by the R obligations instead), z3, the %s/str.format shims, the reference decoders/matchers "
             "written from the W3C/XSD grammars, the regex translator for the R obligations. Strings longer than the stated bound are "
             "outside the claim; for R obligations the claim is for strings of every length over characters up to U+2FFFF.", ref="DESIGN.md section 3 C09"),
    "C17": dict(
        technique="CrossHair: opaque-token store binds, symbolic strings through the namespace trie / split_uri / is_ncname; manager histories shape-symbolic",
        text="Partial claim: Memory/SimpleMemory.bind keep prefix<->namespace a consistent two-way map for every history of <=3 binds "
             "(thorough 4) over opaque symbolic tokens; insert_trie/get_longest_namespace return the longest inserted namespace for "
             "symbolic strings (<=2-3 namespaces); split_uri/is_ncname on every string up to length 3 (thorough 4) over a stated alphabet. "
             "NamespaceManager.bind x qname/curie/compute_qname/n3 interleavings (the stale-memo scenario) only with symbolic flags and "
             "pool indices (enumeration; supplement).",
        note="Trusted base: CrossHair 0.0.110's model of Python str/int (counterexamples are replayed outside CrossHair; it has a known "
             "unsoundness around negative slice bounds on symbolic strings and does not model `$` matching before a final newline - `$`-terminated patterns are decided by the R obligations instead), z3, the %s/str.format shims, the reference decoders/matchers "
             "written from the W3C/XSD grammars, the regex translator for the R obligations. Strings longer than the stated bound are "
             "outside the claim; for R obligations the claim is for strings of every length over characters up to U+2FFFF.", ref="DESIGN.md section 3 C17"),
}

CLAIMED["C16"] = dict(
    technique="CrossHair symbolic strings through rdflib's SPARQL-JSON and SPARQL-XML result mappings (term classes replaced by recorders, json.dumps/loads by a structural copy, XMLGenerator/ElementTree by a recorded element tree)",
    text="Partial claim: only the mappings between result tables and the two structured formats, not their text. JSON: termToJSON / parseJsonTerm for one "
         "term of each kind whose lexical form, language tag and datatype IRI are symbolic strings (an empty, i.e. falsy, content included): the object uses "
         "the SPARQL-JSON vocabulary and reads back as the same term; JSONResultSerializer.serialize -> JSONResult for 6 table shapes over two variables "
         "(bound/unbound cells, all-unbound rows, no rows) with symbolic cell contents: same variables in order, same row sequence, each cell bound to an "
         "equal term or unbound; both ASK answers. XML: the same tables and ASK answers through XMLResultSerializer / SPARQLXMLWriter -> recorded element "
         "structure -> XMLResult / parseTerm. The text level (json/orjson, XMLGenerator escaping, expat/lxml), CSV and TSV are NOT covered (C codecs / a "
         "pyparsing grammar over term contents that cannot be symbolic).",
    note="Trusted base: CrossHair 0.0.110's model of Python str/dict, z3, the recorder classes standing for URIRef/Literal/BNode inside the result "
         "modules (a term with empty text is falsy, as rdflib's str-based terms are), the structural JSON copy, the recorded XML tree with ElementTree's "
         "conventions (text None for no character data, attribute values as strings). The claim says nothing about the text level of any format.",
    ref="DESIGN.md section 3 C16")

CLAIMED["C06"] = dict(
    technique="CrossHair symbolic strings through rdflib's HexTuples serializer and parser and the TriX reader's SAX handler (term classes replaced by recorders, graph classes by recording stand-ins, json by a structural copy of the six-element array)",
    text="Partial claim: HexTuples at the level of the statement <-> six-string mapping, and the TriX reader's event handler. The real HextuplesSerializer (__init__, serialize, _hex_line, "
         "_iri_or_bn, _context_str) writes a dataset of 1-2 quads and the real HextuplesParser (parse, _parse_hextuple) reads the lines back: every statement "
         "must reappear in exactly the graph it was in (default, IRI-named, blank-node-named), 11 dataset shapes (subject/object/graph kinds, the same triple in "
         "two graphs, a blank node shared by two graphs), every term content = one concrete first character + a symbolic string of length <= 2 (blank node labels 3; "
         "thorough 3/4). The TriX reader's SAX handler (TriXHandler) is driven with the events of a document of 1-2 <graph> elements (name element uri / id / none, "
         "symbolic names and contents): every triple goes to the graph its <graph> element names, unnamed graphs are graphs of their own, blank node labels map "
         "one-to-one. N-Quads, TriG, JSON-LD, RDF Patch, the TriX writer (text scanners over term contents) and the JSON / XML text level are NOT covered.",
    note="Trusted base: CrossHair 0.0.110's model of Python str/list/dict, z3, the recorder classes standing for URIRef/BNode/Literal (str interface delegated "
         "to the symbolic text), the recording stand-ins for Graph/Dataset/ConjunctiveGraph, the structural copy standing for json.dumps/loads. Only the RDF 1.1 "
         "identification of a plain literal with its xsd:string form is accepted as a change.",
    ref="DESIGN.md section 3 C06")

CLAIMED["C20"] = dict(
    technique="symbolic execution of SPARQLStore / SPARQLUpdateStore (CrossHair + z3) with an endpoint model: the generated SPARQL text is parsed by rdflib's parser, placeholder terms are replaced by the symbolic terms, and the query/update is evaluated on a local Dataset",
    text="Partial claim: the query / update text the stores generate and what they make of the results, not HTTP or result formats. The store's only doors to the "
         "network (_query, _update) are replaced by an endpoint model (rdflib's own SPARQL parser on the concrete generated text, placeholders substituted by the "
         "symbolic terms they stand for, rdflib's evaluator on a local Dataset(default_union=False); default-graph-uri selects the graph). Reads: endpoint data of 2 "
         "symbolic triples over the default graph and a named graph (objects IRIs or falsy-capable literals), store-backed Graph / ConjunctiveGraph views; "
         "triples() under all 8 pattern shapes with symbolic probe terms, len(), membership, contexts(triple) compared with the endpoint's data. Writes: "
         "SPARQLUpdateStore with autocommit on, and off followed by commit / rollback / a read: add and remove (5 pattern shapes) sequences; after every step the "
         "endpoint's graphs equal what the history defines (pending edits only after commit or before a read).",
    note="Trusted base: as for the other engine-S properties, plus the endpoint model: rdflib's SPARQL parser (concrete text, untraced) and evaluators (checked by C04, "
         "C08, C10) stand for the remote endpoint; symbolic terms carry a concrete slot number in their text so that the generated text is concrete while identity "
         "and truthiness stay symbolic. HTTP, the XML/JSON result formats (C16), blank nodes, initBindings, LIMIT/OFFSET attributes, add_graph/remove_graph and "
         "update() with user text are outside.",
    ref="DESIGN.md section 3 C20")

CLAIMED["C12"] = dict(
    technique="CrossHair symbolic code points in blank node labels through rdflib's real Turtle / TriG parsers (label table as a linear-search map); z3 decides 'same label or not'",
    text="Partial claim: Turtle and TriG only. Through the real TurtleParser.parse / TrigParser.parse (a record stands for the InputSource): two parse() calls with "
         "labels 'b' + one symbolic code point each into a graph that already holds a statement about BNode('bq') - the two blank nodes are different nodes whatever "
         "the labels, neither is the existing node, and the existing statement is still there; inside one TriG document (4 shapes: two graph blocks, default graph "
         "then block, GRAPH keyword, one block) the same label denotes one node and different labels different nodes. N-Triples, N-Quads, RDF/XML, TriX, JSON-LD, "
         "HexTuples are NOT covered (text scanners realise a symbolic document; a concrete experiment shows that N-Quads, JSON-LD and HexTuples merge equal labels of "
         "separate calls - recorded in DESIGN section 6 as an observation, not as a finding of this machinery).",
    note="Trusted base: CrossHair 0.0.110's model of Python str/int and its regex interpreter on strings with a few symbolic characters, z3; SinkParser / "
         "TrigSinkParser are subclassed so that a parser's label table is represented by a linear-search map (one dict object is always represented by the same "
         "map, so a table shared between parsers stays shared); labels are two characters long.",
    ref="DESIGN.md section 3 C12")

NA = {
    "C06": "document-level quad round trips run json/expat/regex scanners over text built from term contents; contents cannot be symbolic (C-level str.__new__), leaving only membership booleans = enumeration, not solver-based checking",
    "C12": "every parser keys its blank-node label map on text extracted by regex/SAX/JSON; a symbolic label is realised by that extraction (probe: no verdict in 300 s), what remains is a boolean 'same label or not'",
    "C14": "canonicalisation hashes n3() strings with SHA-256 (C code) before its first structural branch, realising every symbolic input; the interesting inputs are boolean structures",
    "C16": "result codecs are json/expat/csv (C) and a pyparsing grammar over term contents that cannot be symbolic; remaining symbolic inputs are bound/unbound booleans",
    "C20": "property is about HTTP round trips and the meaning of generated SPARQL text, which needs pyparsing on that text; all symbolic data is realised at n3()/socket/JSON boundaries",
}


def main():
    checks = []
    for pid, c in sorted(CLAIMED.items()):
        checks.append({
            "property_id": pid,
            "quick_cmd": "./vf check %s --tier quick" % pid,
            "thorough_cmd": "./vf check %s --tier thorough" % pid,
            "evidence_file": "/verif/evidence/%s.json" % pid,
            "replay_cmd_template": "./vf replay {path}",
            "engine": "vf",
            "level_claimed": {"category": "model_checking", "text": c["text"], "design_ref": c["ref"]},
            "level_note": c.get("note", S_NOTE),
            "technique": c["technique"],
        })
    m = {
        "version": 1,
        "setup_cmd": "./setup.sh",
        "hooks": {
            "guard": "RDFLIB_VERIF",
            "enable": "no instrumentation of /repo is needed: the checks import rdflib from /repo (editable install) and run it under "
                      "CrossHair's tracer; ./vf exports RDFLIB_VERIF=1 for uniformity",
            "baseline_off_cmd": BASE,
            "source_commits": [],
            "add_only": True,
        },
        "engines": [{
            "name": "vf", "path": "/verif/vf", "serves_properties": sorted(CLAIMED),
            "kind_free_text": "solver-based checking of the real code: CrossHair symbolic execution (z3) with opaque symbolic RDF terms "
                              "(engine S), symbolic str/int kernels (engine K), z3 regular-language inclusion on live regex objects (engine R)",
        }],
        "checks": checks,
        "not_applicable": [{"property_id": k, "reason": v} for k, v in sorted(NA.items()) if k not in CLAIMED],
        "notes": "Exit codes of ./vf check: 0 = no violation within the explored bounds (KNOWN-FINDING lines for listed findings), "
                 "1 = replayed violation not listed in known_findings.jsonl, 2 = harness error (never on the unchanged tree). "
                 "Genuine defects found and repaired by 'fix:' commits in /repo are listed in known_findings.jsonl as fixed.",
    }
    with open(os.path.join(ROOT, "MANIFEST.json"), "w") as f:
        json.dump(m, f, indent=1)
        f.write("\n")


if __name__ == "__main__":
    main()
