#!/bin/sh
# usage: tools/baseline.sh      runs the repository's pinned test suite on /repo's HEAD in a scratch worktree and lists every
# BASELINE stable_pass test that no longer passes (expected: none). The worktree is removed afterwards.
WT=/var/tmp/wt/base_$$
git -C /repo worktree add -q --detach "$WT" HEAD || exit 2
cd "$WT"
PYTHONPATH="$WT" /venv/bin/python -m pytest -q -p no:cacheprovider --timeout=900 --continue-on-collection-errors --junitxml="$WT/../junit_$$.xml" > "$WT/../tests_$$.log" 2>&1
/venv/bin/python - "$WT/../junit_$$.xml" "$WT" <<'PY'
import json, sys, xml.etree.ElementTree as ET
j, wt = sys.argv[1], sys.argv[2]
b = json.load(open('/root/.vp/BASELINE.json'))
passed = set()
for tc in ET.parse(j).iter('testcase'):
    if not any(ch.tag in ('failure', 'error', 'skipped') for ch in tc):
        passed.add((tc.get('classname') + '::' + tc.get('name')).replace(wt, '/repo'))
missing = sorted(set(b['stable_pass']) - passed)
print("stable_pass tests:", len(b['stable_pass']), "no longer passing:", len(missing))
for m in missing:
    print("  ", m)
PY
tail -3 "$WT/../tests_$$.log"
rm -f "$WT/../junit_$$.xml" "$WT/../tests_$$.log"
cd /; git -C /repo worktree remove --force "$WT"
