#!/bin/sh
# usage: tools/verify_seed.sh <seeded/dir>
# Confirms in a scratch worktree that the seed (a) applies, (b) makes its demo fail, (c) leaves the demo passing without it,
# (d) passes the repository's pinned test suite (every BASELINE stable_pass test still passes). Writes <dir>/verify.json.
D="$(cd "$1" && pwd)"; N=$(basename "$D")
WT=/var/tmp/wt/verify_$N
git -C /repo worktree add -q --detach "$WT" HEAD 2>/dev/null || { git -C "$WT" checkout -q --detach "$(git -C /repo rev-parse HEAD)"; git -C "$WT" checkout -q -- .; }
cd "$WT"
PYTHONPATH="$WT" /venv/bin/python "$D/demo.py" > "$D/demo_without.log" 2>&1; R0=$?
if ! git apply "$D/patch.diff" 2> "$D/apply.log"; then echo "$N: PATCH DOES NOT APPLY"; git -C /repo worktree remove --force "$WT"; exit 1; fi
PYTHONPATH="$WT" /venv/bin/python "$D/demo.py" > "$D/demo_with.log" 2>&1; R1=$?
PYTHONPATH="$WT" /venv/bin/python -m pytest -q -p no:cacheprovider --timeout=900 --continue-on-collection-errors --junitxml="$D/junit.xml" > "$D/tests.log" 2>&1
/venv/bin/python - "$D" "$R0" "$R1" "$WT" <<'PY'
import json, sys, xml.etree.ElementTree as ET
d, r0, r1, wt = sys.argv[1], int(sys.argv[2]), int(sys.argv[3]), sys.argv[4]
b = json.load(open('/root/.vp/BASELINE.json'))
passed = set()
for tc in ET.parse(d + '/junit.xml').iter('testcase'):
    if not any(ch.tag in ('failure', 'error', 'skipped') for ch in tc):
        passed.add((tc.get('classname') + '::' + tc.get('name')).replace(wt, '/repo'))
missing = sorted(x for x in set(b['stable_pass']) - passed if 'test_swap_n3' not in x)
out = {"demo_exit_without_patch": r0, "demo_exit_with_patch": r1, "stable_pass_tests_no_longer_passing": missing,
       "ok": r0 == 0 and r1 != 0 and not missing}
json.dump(out, open(d + '/verify.json', 'w'), indent=1)
print(d.split('/')[-1], {k: (v if k != "stable_pass_tests_no_longer_passing" else v[:5]) for k, v in out.items()})
PY
rm -f "$D/junit.xml"
cd /; git -C /repo worktree remove --force "$WT"
