#!/bin/sh
# For every "fixed" entry of known_findings.jsonl: re-introduce the defect (reverse-apply the fix commit in a scratch
# worktree) and expect the property's quick check to exit 1 with a VIOLATION line.  Leaves /repo untouched.
WT=/var/tmp/wt/seedrun
cd "$(dirname "$0")/.."
git -C /repo worktree list | grep -q "$WT" || git -C /repo worktree add -q --detach "$WT" HEAD
mkdir -p out/regress
/venv/bin/python - <<'PY' > out/regress/list.txt
import json
seen=set()
for l in open('known_findings.jsonl'):
    l=l.strip()
    if not l or l.startswith('#'): continue
    f=json.loads(l)
    if f.get('status')=='fixed' and (f['property'],f['commit']) not in seen:
        seen.add((f['property'],f['commit'])); print(f['property'], f['commit'])
PY
while read PID C; do
  git -C "$WT" checkout -q --detach "$(git -C /repo rev-parse HEAD)"; git -C "$WT" checkout -q -- .
  if ! git -C /repo show "$C" -- rdflib | git -C "$WT" apply -R 2>/dev/null; then echo "$PID $C: cannot reverse-apply (later commit touches the same lines)"; continue; fi
  VF_REPO="$WT" VF_OUT=/verif/out/regress ./vf check "$PID" --tier quick > "out/regress/$PID-$C.log" 2>&1; RC=$?
  echo "$PID $C exit=$RC violations=$(grep -c '^VIOLATION' out/regress/$PID-$C.log) $(git -C /repo log -1 --format=%s $C | cut -c1-70)"
  git -C "$WT" checkout -q -- .
done < out/regress/list.txt
