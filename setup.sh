#!/bin/sh
# Build the overlay venv the checks run in: /venv's interpreter and packages (rdflib is an
# editable install pointing at /repo) + crosshair-tool/z3/cvc5/jsonschema from the offline wheelhouse.
set -e
cd "$(dirname "$0")"
V="$(pwd)/.venv"
if [ -x "$V/bin/python" ] && "$V/bin/python" -c "import crosshair, z3, rdflib" 2>/dev/null; then
  exit 0
fi
rm -rf "$V"
/venv/bin/python -m venv "$V"
SP=$("$V/bin/python" -c "import sysconfig; print(sysconfig.get_paths()['purelib'])")
printf "import site; site.addsitedir('/venv/lib/python3.12/site-packages')\n" > "$SP/_ov.pth"
PIP_NO_INDEX=1 "$V/bin/python" -m pip install -q --no-index --find-links /opt/veriftools/wheels crosshair-tool cvc5 jsonschema >/dev/null
"$V/bin/python" -c "import crosshair, z3, rdflib; assert rdflib.__file__.startswith('/repo/'), rdflib.__file__"
